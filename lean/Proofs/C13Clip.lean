/-
  C13 support — the geometric half of "binning the restricted run": the mid-point bins (`nativeBins false`) of a
  contiguous sub-range of a strictly increasing native grid coincide with the corresponding bins of the full grid
  except possibly the first and the last one (whose widths are re-derived from one neighbour only); on a uniformly
  spaced grid all of them coincide.  Consequently the bins overlapping a target are the same for both grids as soon
  as the target does not reach the two edge bins of the clipped grid nor any full-grid bin outside the interior
  index range.
-/
import Proofs.C05Midpoint
import Proofs.C13Binning

namespace Taurex.C13L
open Taurex.Binning List

/-! ### sub-range of a grid -/

theorem getD_drop_take (g : List ℝ) (i m j : Nat) (hj : j < m) :
    ((g.drop i).take m).getD j 0 = g.getD (i + j) 0 := by
  rw [List.getD_eq_getElem?_getD, List.getD_eq_getElem?_getD, List.getElem?_take, if_pos hj, List.getElem?_drop]

theorem spacing_drop_take (g : List ℝ) (i m j : Nat) (hj : j + 1 < m) :
    spacing ((g.drop i).take m) j = spacing g (i + j) := by
  unfold spacing
  rw [getD_drop_take g i m (j + 1) hj, getD_drop_take g i m j (by omega)]
  rfl

theorem length_drop_take {β : Type} (l : List β) (i m : Nat) (h : i + m ≤ l.length) :
    ((l.drop i).take m).length = m := by
  rw [List.length_take, List.length_drop]; omega

theorem map_drop_take (rows : List (Row ℝ)) (i m : Nat) :
    ((rows.drop i).take m).map Row.c = ((rows.map Row.c).drop i).take m := by
  rw [List.map_take, List.map_drop]

theorem sub_increasing (g : List ℝ) (i m : Nat) (hg : g.Pairwise (· < ·)) :
    ((g.drop i).take m).Pairwise (· < ·) :=
  (hg.sublist (List.drop_sublist _ _)).sublist (List.take_sublist _ _)

/-! ### rows of `nativeBins false`, element by element -/

theorem getElem?_withWidths (rows : List (Row ℝ)) (ws : List ℝ) (k : Nat) (hk : k < rows.length)
    (hl : ws.length = rows.length) :
    (withWidths rows ws)[k]? = some { rows[k] with w := ws.getD k 0 } := by
  unfold withWidths
  have hk' : k < ws.length := by omega
  rw [List.getElem?_eq_getElem (by rw [List.length_zipWith]; omega), List.getElem_zipWith,
    List.getD_eq_getElem _ _ hk']

/-- the `k`-th mid-point bin of rows given in strictly increasing wavenumber -/
theorem getElem?_nativeBins (rows : List (Row ℝ)) (hg : (rows.map Row.c).Pairwise (· < ·)) (k : Nat)
    (hk : k < rows.length) :
    (nativeBins false rows)[k]? =
      some { rows[k] with w := (computeBinEdges (rows.map Row.c)).2.getD k 0 } := by
  rw [nativeBins_false_sorted rows hg]
  exact getElem?_withWidths rows _ k hk (by rw [length_widths _ (by rw [List.length_map]; omega), List.length_map])

/-- **interior rows coincide** (index form): for `0 < k < m-1` the `k`-th bin of the sub-range
    `(full.drop i).take m` is the `(i+k)`-th bin of the full grid -/
theorem clip_interior_row (full : List (Row ℝ)) (i m k : Nat) (hg : (full.map Row.c).Pairwise (· < ·))
    (him : i + m ≤ full.length) (hk0 : 0 < k) (hk : k + 1 < m) :
    (nativeBins false ((full.drop i).take m))[k]? = (nativeBins false full)[i + k]? := by
  set sub := (full.drop i).take m with hsub
  have hlen : sub.length = m := length_drop_take full i m him
  have hgs : (sub.map Row.c).Pairwise (· < ·) := by
    rw [hsub, map_drop_take]; exact sub_increasing _ i m hg
  rw [getElem?_nativeBins sub hgs k (by omega), getElem?_nativeBins full hg (i + k) (by omega)]
  have hrow : sub[k]'(by omega) = full[i + k]'(by omega) := by
    simp only [hsub, List.getElem_take, List.getElem_drop]
  have hn : 2 ≤ (full.map Row.c).length := by rw [List.length_map]; omega
  have hns : 2 ≤ (sub.map Row.c).length := by rw [List.length_map]; omega
  have hw : (computeBinEdges (sub.map Row.c)).2.getD k 0 = (computeBinEdges (full.map Row.c)).2.getD (i + k) 0 := by
    rw [getD_widths _ hns hgs k (by rw [List.length_map]; omega),
      getD_widths _ hn hg (i + k) (by rw [List.length_map]; omega)]
    have e1 : ¬ k + 1 = (sub.map Row.c).length := by rw [List.length_map]; omega
    have e2 : ¬ i + k + 1 = (full.map Row.c).length := by rw [List.length_map]; omega
    rw [if_neg e1, if_neg e2]
    unfold spacingL
    rw [if_neg (by omega : ¬ k = 0), if_neg (by omega : ¬ i + k = 0)]
    rw [hsub, map_drop_take, spacing_drop_take _ i m (k - 1) (by omega), spacing_drop_take _ i m k hk]
    have : i + (k - 1) = i + k - 1 := by omega
    rw [this]
  rw [hrow, hw]

/-- **interior rows coincide** (list form) -/
theorem clip_interior_rows (full : List (Row ℝ)) (i m : Nat) (hg : (full.map Row.c).Pairwise (· < ·))
    (hm : 2 ≤ m) (him : i + m ≤ full.length) :
    ((nativeBins false ((full.drop i).take m)).drop 1).take (m - 2) =
      ((nativeBins false full).drop (i + 1)).take (m - 2) := by
  apply List.ext_getElem?
  intro k
  rw [List.getElem?_take, List.getElem?_take]
  by_cases hk : k < m - 2
  · rw [if_pos hk, if_pos hk, List.getElem?_drop, List.getElem?_drop]
    have := clip_interior_row full i m (1 + k) hg him (by omega) (by omega)
    rw [this]
    congr 1; omega
  · rw [if_neg hk, if_neg hk]

/-- the same with `dropLast` (`m ≥ 2`) -/
theorem clip_interior_rows_dropLast (full : List (Row ℝ)) (i m : Nat) (hg : (full.map Row.c).Pairwise (· < ·))
    (hm : 2 ≤ m) (him : i + m ≤ full.length) :
    ((nativeBins false ((full.drop i).take m)).drop 1).dropLast =
      ((nativeBins false full).drop (i + 1)).take (m - 2) := by
  rw [← clip_interior_rows full i m hg hm him, List.dropLast_eq_take, List.length_drop,
    length_nativeBins_false _ (by rw [length_drop_take full i m him]; omega), length_drop_take full i m him]
  congr 1

theorem overlapping_nil_of_zero (a b : ℝ) (l : List (Row ℝ)) (h : ∀ r ∈ l, overlap a b r = 0) :
    overlapping a b l = [] := by
  unfold overlapping
  rw [List.filter_eq_nil_iff]
  intro r hr
  rw [h r hr]; simp

theorem overlapping_append (a b : ℝ) (l₁ l₂ : List (Row ℝ)) :
    overlapping a b (l₁ ++ l₂) = overlapping a b l₁ ++ overlapping a b l₂ := by
  unfold overlapping; rw [List.filter_append]

/-- split a list into a prefix of `s` elements, `k` middle elements and the rest -/
theorem split3 {β : Type} (l : List β) (s k : Nat) :
    l = l.take s ++ ((l.drop s).take k ++ l.drop (s + k)) := by
  rw [← List.drop_drop, List.take_append_drop, List.take_append_drop]

/-- the overlapping bins of a list are those of a middle segment when the target reaches nothing outside it -/
theorem overlapping_middle (a b : ℝ) (l : List (Row ℝ)) (s k : Nat)
    (h1 : ∀ r ∈ l.take s, overlap a b r = 0) (h2 : ∀ r ∈ l.drop (s + k), overlap a b r = 0) :
    overlapping a b l = overlapping a b ((l.drop s).take k) := by
  conv_lhs => rw [split3 l s k]
  rw [overlapping_append, overlapping_append, overlapping_nil_of_zero a b _ h1, overlapping_nil_of_zero a b _ h2]
  simp

/-- **clip keeps the overlapping bins**: `full` is the native run (strictly increasing wavenumber), the
    restricted run holds the contiguous sub-range `(full.drop i).take m`.  If the target `[a,b]` has zero overlap
    with the first and the last mid-point bin of the restricted run, and with every mid-point bin of the full run
    outside the index range `i+1 … i+m-2`, then both runs have the same overlapping bins. -/
theorem clip_overlapping_eq (full : List (Row ℝ)) (i m : Nat) (a b : ℝ)
    (hg : (full.map Row.c).Pairwise (· < ·)) (hm : 2 ≤ m) (him : i + m ≤ full.length)
    (hc1 : ∀ r ∈ (nativeBins false ((full.drop i).take m)).take 1, overlap a b r = 0)
    (hc2 : ∀ r ∈ (nativeBins false ((full.drop i).take m)).drop (m - 1), overlap a b r = 0)
    (hf1 : ∀ r ∈ (nativeBins false full).take (i + 1), overlap a b r = 0)
    (hf2 : ∀ r ∈ (nativeBins false full).drop (i + m - 1), overlap a b r = 0) :
    overlapping a b (nativeBins false full) = overlapping a b (nativeBins false ((full.drop i).take m)) := by
  rw [overlapping_middle a b (nativeBins false full) (i + 1) (m - 2) hf1
        (by have : i + 1 + (m - 2) = i + m - 1 := by omega
            rw [this]; exact hf2),
      overlapping_middle a b (nativeBins false ((full.drop i).take m)) 1 (m - 2) hc1
        (by have : 1 + (m - 2) = m - 1 := by omega
            rw [this]; exact hc2),
      clip_interior_rows full i m hg hm him]

/-! ### uniformly spaced grids: all rows coincide -/

theorem linear_widths (g : List ℝ) (hn : 2 ≤ g.length) (d : ℝ) (hd0 : 0 < d)
    (hd : ∀ j, j + 1 < g.length → spacing g j = d) (k : Nat) (hk : k < g.length) :
    (computeBinEdges g).2.getD k 0 = d := by
  have hg := linear_increasing g d hd0 hd
  rw [getD_widths g hn hg k hk]
  have hL : spacingL g k = d := by
    unfold spacingL; split
    · exact hd k (by omega)
    · exact hd (k - 1) (by omega)
  have hR : (if k + 1 = g.length then spacing g (g.length - 2) else spacing g k) = d := by
    split
    · exact hd _ (by omega)
    · exact hd k (by omega)
  rw [hL, hR]; ring

/-- constant spacing: every bin of the sub-range is the corresponding bin of the full grid -/
theorem clip_uniform_row (full : List (Row ℝ)) (i m k : Nat) (d : ℝ) (hd0 : 0 < d)
    (hd : ∀ j, j + 1 < (full.map Row.c).length → spacing (full.map Row.c) j = d)
    (hm : 2 ≤ m) (him : i + m ≤ full.length) (hk : k < m) :
    (nativeBins false ((full.drop i).take m))[k]? = (nativeBins false full)[i + k]? := by
  have hg := linear_increasing _ d hd0 hd
  set sub := (full.drop i).take m with hsub
  have hlen : sub.length = m := length_drop_take full i m him
  have hgs : (sub.map Row.c).Pairwise (· < ·) := by
    rw [hsub, map_drop_take]; exact sub_increasing _ i m hg
  have hds : ∀ j, j + 1 < (sub.map Row.c).length → spacing (sub.map Row.c) j = d := by
    intro j hj
    rw [List.length_map, hlen] at hj
    rw [hsub, map_drop_take, spacing_drop_take _ i m j hj]
    exact hd (i + j) (by rw [List.length_map]; omega)
  rw [getElem?_nativeBins sub hgs k (by omega), getElem?_nativeBins full hg (i + k) (by omega)]
  have hrow : sub[k]'(by omega) = full[i + k]'(by omega) := by
    simp only [hsub, List.getElem_take, List.getElem_drop]
  rw [hrow, linear_widths _ (by rw [List.length_map]; omega) d hd0 hds k (by rw [List.length_map]; omega),
    linear_widths _ (by rw [List.length_map]; omega) d hd0 hd (i + k) (by rw [List.length_map]; omega)]

theorem clip_uniform_rows (full : List (Row ℝ)) (i m : Nat) (d : ℝ) (hd0 : 0 < d)
    (hd : ∀ j, j + 1 < (full.map Row.c).length → spacing (full.map Row.c) j = d)
    (hm : 2 ≤ m) (him : i + m ≤ full.length) :
    nativeBins false ((full.drop i).take m) = ((nativeBins false full).drop i).take m := by
  apply List.ext_getElem?
  intro k
  rw [List.getElem?_take, List.getElem?_drop]
  by_cases hk : k < m
  · rw [if_pos hk]
    exact clip_uniform_row full i m k d hd0 hd hm him hk
  · rw [if_neg hk, List.getElem?_eq_none]
    rw [length_nativeBins_false _ (by rw [length_drop_take full i m him]; omega), length_drop_take full i m him]
    omega

/-- constant spacing: the clipped run has the same overlapping bins as soon as the target reaches no full-grid bin
    outside the kept index range `i … i+m-1` -/
theorem clip_uniform_overlapping_eq (full : List (Row ℝ)) (i m : Nat) (a b d : ℝ) (hd0 : 0 < d)
    (hd : ∀ j, j + 1 < (full.map Row.c).length → spacing (full.map Row.c) j = d)
    (hm : 2 ≤ m) (him : i + m ≤ full.length)
    (hf1 : ∀ r ∈ (nativeBins false full).take i, overlap a b r = 0)
    (hf2 : ∀ r ∈ (nativeBins false full).drop (i + m), overlap a b r = 0) :
    overlapping a b (nativeBins false full) = overlapping a b (nativeBins false ((full.drop i).take m)) := by
  rw [clip_uniform_rows full i m d hd0 hd hm him]
  exact overlapping_middle a b (nativeBins false full) i m hf1 hf2

end Taurex.C13L
