/-
  Helper definitions and lemmas for Props/C07Src.lean (source tie of taurex/optimizer/optimizer.py):
  how a state of `TaurexModel/OptimizerSM.lean` is laid out as the Python objects the translated code handles
  (dicts of parameter tuples, the list of compiled tuples, the world behind the getters and setters), and the facts that
  relate the `Py.*` container primitives to the model's `tget` / `tset` / `hasName` / `modifyParam`.
  Core only; generic in names and carrier.
-/
import TaurexModel.Gen.SrcC07
import Proofs.C07Update
set_option linter.unusedSectionVars false

namespace Taurex.C07Src
open Taurex.Priors Taurex.OptimizerSM Taurex.Gen Taurex.C07

/-! ### the layout of a model state as Python objects -/

/-- the `mode` slot of a parameter tuple -/
def modeStr : FitMode → String
  | .linear => "linear"
  | .log => "log"

/-- `PriorMode` members as the translator encodes them (`PriorMode.LINEAR` = 0, `PriorMode.LOG` = 1) -/
def modeCode : PriorMode → Nat
  | .linear => 0
  | .log => 1

/-- how an exception of the model is named by the translated code -/
def outE : Out → Except Py.Err Unit
  | .ok => .ok ()
  | .keyError => .error .keyError
  | .valueError => .error .valueError

section
variable {ν α L : Type}

/-- a bound getter / setter: which object it belongs to and which attribute it accesses -/
abbrev Handle (ν : Type) := Owner × ν

abbrev T7 (ν α L : Type) := ν × L × Handle ν × Handle ν × String × Bool × (α × α)
abbrev T4 (ν L : Type) := ν × L × Handle ν × Bool

/-- the tuple `(name, latex, fget, fset, mode, to_fit, bounds)` stored for a parameter of the object `o`;
    `lx` gives the LaTeX text (never looked at by the code under check) -/
def tupleOf (lx : ν → L) (o : Owner) (p : Param ν α) : T7 ν α L :=
  (p.name, lx p.name, (o, p.name), (o, p.name), modeStr p.mode, p.fit, (p.b0, p.b1))

/-- `obj.fittingParameters` -/
def fpDict (lx : ν → L) (o : Owner) (ps : List (Param ν α)) : List (ν × T7 ν α L) :=
  ps.map (fun p => (p.name, tupleOf lx o p))

/-- the tuple `(name, latex, fget, compute)` of a derived parameter -/
def dtupleOf (lx : ν → L) (o : Owner) (d : Derived ν) : T4 ν L := (d.name, lx d.name, (o, d.name), d.compute)

/-- `obj.derivedParameters` -/
def dpDict (lx : ν → L) (o : Owner) (ds : List (Derived ν)) : List (ν × T4 ν L) :=
  ds.map (fun d => (d.name, dtupleOf lx o d))

/-- an element of `Optimizer.fitting_parameters`: the tuple as it was when compiled (its fit flag was set) -/
def entryTuple (lx : ν → L) (e : Entry ν α) : T7 ν α L :=
  (e.name, lx e.name, (e.owner, e.name), (e.owner, e.name), modeStr e.mode, true, (e.b0, e.b1))

/-- the elements of `Optimizer.derived_parameters` a table contributes -/
def derivedTuples (lx : ν → L) (o : Owner) (ds : List (Derived ν)) : List (T4 ν L) :=
  (ds.filter (·.compute)).map (dtupleOf lx o)

theorem derivedTuples_names (lx : ν → L) (o : Owner) (ds : List (Derived ν)) :
    (derivedTuples lx o ds).map (·.1) = derivedOf ds := by
  simp [derivedTuples, derivedOf, dtupleOf, List.map_map, Function.comp_def]

end

section
variable {ν α : Type} [DecidableEq ν]

/-- `fget()` of a handle in the world `s` (the model's `getValue`; a getter of the real code always returns a value:
    the default is never reached for a handle of an existing parameter) -/
def callGet [OfNat α 0] (s : St ν α) (g : Handle ν) : α := (getValue s g.1 g.2).getD 0

/-- `fset(x)` of a handle -/
def callSet (s : St ν α) (g : Handle ν) (x : α) : St ν α := setValue s g.1 g.2 x

/-! ### `Py` dict primitives against the model's prior table -/

theorem dget_eq_tget (t : Table ν α) (n : ν) : Py.dget t n = tget t n := by
  induction t with
  | nil => rfl
  | cons kv t ih =>
    obtain ⟨k, p⟩ := kv
    simp only [Py.dget, tget, ih]

theorem dset_eq_tset (t : Table ν α) (n : ν) (p : Prior α) : Py.dset t n p = tset t n p := by
  induction t with
  | nil => rfl
  | cons kv t ih =>
    obtain ⟨k, q⟩ := kv
    simp only [Py.dset, tset, ih]

theorem dhas_eq {β : Type} (d : List (ν × β)) (n : ν) : Py.dhas d n = (Py.dget d n).isSome := by
  induction d with
  | nil => rfl
  | cons kv d ih =>
    obtain ⟨k, v⟩ := kv
    by_cases h : k = n
    · simp [Py.dhas, Py.dget, h]
    · have : Py.dhas ((k, v) :: d) n = Py.dhas d n := by simp [Py.dhas, h]
      rw [this, ih]; simp [Py.dget, h]

theorem dgetE_of_get {β : Type} (d : List (ν × β)) (n : ν) (v : β) (h : Py.dget d n = some v) :
    Py.dgetE d n = .ok v := by
  simp [Py.dgetE, h]

theorem dgetE_of_none {β : Type} (d : List (ν × β)) (n : ν) (h : Py.dget d n = none) :
    Py.dgetE d n = .error .keyError := by
  simp [Py.dgetE, h]

/-- storing under a new key appends -/
theorem dset_new {β : Type} (d : List (ν × β)) (n : ν) (v : β) (h : Py.dget d n = none) :
    Py.dset d n v = d ++ [(n, v)] := by
  induction d with
  | nil => rfl
  | cons kv d ih =>
    obtain ⟨k, w⟩ := kv
    by_cases hk : k = n
    · simp [Py.dget, hk] at h
    · simp only [Py.dget, hk, if_false] at h
      simp [Py.dset, hk, ih h]

/-- storing the value a key already has changes nothing -/
theorem dset_same {β : Type} (d : List (ν × β)) (n : ν) (v : β) (h : Py.dget d n = some v) :
    Py.dset d n v = d := by
  induction d with
  | nil => simp [Py.dget] at h
  | cons kv d ih =>
    obtain ⟨k, w⟩ := kv
    by_cases hk : k = n
    · simp only [Py.dget, hk, if_true, Option.some.injEq] at h
      simp [Py.dset, hk, h]
    · simp only [Py.dget, hk, if_false] at h
      simp [Py.dset, hk, ih h]

theorem dget_append_left {β : Type} (d e : List (ν × β)) (n : ν) (v : β) (h : Py.dget d n = some v) :
    Py.dget (d ++ e) n = some v := by
  induction d with
  | nil => simp [Py.dget] at h
  | cons kv d ih =>
    obtain ⟨k, w⟩ := kv
    by_cases hk : k = n
    · simpa [Py.dget, hk] using h
    · simp only [Py.dget, hk, if_false] at h
      simp [Py.dget, hk, ih h]

theorem dget_append_none {β : Type} (d e : List (ν × β)) (n : ν) (h : Py.dget d n = none) :
    Py.dget (d ++ e) n = Py.dget e n := by
  induction d with
  | nil => rfl
  | cons kv d ih =>
    obtain ⟨k, w⟩ := kv
    by_cases hk : k = n
    · simp [Py.dget, hk] at h
    · simp only [Py.dget, hk, if_false] at h
      simp [Py.dget, hk, ih h]

/-- `d.update(d)` changes nothing -/
theorem dupdate_self_aux {β : Type} (e : List (ν × β)) : ∀ (d : List (ν × β)),
    (∀ kv ∈ e, Py.dget d kv.1 = some kv.2) → Py.dupdate d e = d := by
  induction e with
  | nil => intro d _; rfl
  | cons kv e ih =>
    intro d h
    have h1 := h kv (by simp)
    simp only [Py.dupdate, List.foldl_cons]
    rw [dset_same d kv.1 kv.2 h1]
    exact ih d (fun kv' hm => h kv' (by simp [hm]))

theorem dget_of_mem_nodup {β : Type} (d : List (ν × β)) (hnd : (d.map (·.1)).Nodup) :
    ∀ kv ∈ d, Py.dget d kv.1 = some kv.2 := by
  induction d with
  | nil => intro kv h; simp at h
  | cons a d ih =>
    obtain ⟨k, w⟩ := a
    intro kv hm
    simp only [List.map_cons, List.nodup_cons] at hnd
    rcases List.mem_cons.1 hm with h | h
    · subst h; simp [Py.dget]
    · have hne : k ≠ kv.1 := by
        intro e; apply hnd.1; rw [e]; exact List.mem_map_of_mem (f := (·.1)) h
      simp [Py.dget, hne, ih hnd.2 kv h]

theorem dupdate_self {β : Type} (d : List (ν × β)) (hnd : (d.map (·.1)).Nodup) : Py.dupdate d d = d :=
  dupdate_self_aux d d (dget_of_mem_nodup d hnd)

/-- updating the empty dict with a dict gives that dict -/
theorem dupdate_nil_aux {β : Type} (e : List (ν × β)) : ∀ (d : List (ν × β)),
    ((d ++ e).map (·.1)).Nodup → Py.dupdate d e = d ++ e := by
  induction e with
  | nil => intro d _; simp [Py.dupdate]
  | cons kv e ih =>
    intro d hnd
    simp only [Py.dupdate, List.foldl_cons]
    have hnone : Py.dget d kv.1 = none := by
      cases hg : Py.dget d kv.1 with
      | none => rfl
      | some v =>
        exfalso
        have hk : kv.1 ∈ d.map (·.1) := by
          clear hnd ih
          induction d with
          | nil => simp [Py.dget] at hg
          | cons a d ihd =>
            obtain ⟨k, w⟩ := a
            by_cases hk : k = kv.1
            · simp [hk]
            · simp only [Py.dget, hk, if_false] at hg
              simp [ihd hg]
        rw [List.map_append, List.nodup_append] at hnd
        exact hnd.2.2 _ hk _ (by simp) rfl
    rw [dset_new d kv.1 kv.2 hnone]
    have := ih (d ++ [(kv.1, kv.2)]) (by simpa using hnd)
    simpa [Py.dupdate] using this

theorem dupdate_nil {β : Type} (e : List (ν × β)) (hnd : (e.map (·.1)).Nodup) : Py.dupdate [] e = e := by
  simpa using dupdate_nil_aux e [] (by simpa using hnd)

end

/-! ### the parameter tables as dicts -/

section
variable {ν α L : Type} [DecidableEq ν]

theorem dget_fpDict (lx : ν → L) (o : Owner) (ps : List (Param ν α)) (n : ν) :
    Py.dget (fpDict lx o ps) n = (ps.find? (fun p => decide (p.name = n))).map (tupleOf lx o) := by
  induction ps with
  | nil => rfl
  | cons q ps ih =>
    by_cases h : q.name = n
    · simp [fpDict, Py.dget, List.find?, h]
    · simp only [fpDict, List.map_cons, Py.dget, h, if_false, List.find?, decide_false] at ih ⊢
      exact ih

theorem dhas_fpDict (lx : ν → L) (o : Owner) (ps : List (Param ν α)) (n : ν) :
    Py.dhas (fpDict lx o ps) n = hasName ps n := by
  simp [Py.dhas, fpDict, hasName, List.any_map, Function.comp_def]

theorem find_of_hasName (ps : List (Param ν α)) (n : ν) (h : hasName ps n = true) :
    ∃ p, ps.find? (fun p => decide (p.name = n)) = some p ∧ p.name = n := by
  induction ps with
  | nil => simp [hasName] at h
  | cons q ps ih =>
    by_cases hq : q.name = n
    · exact ⟨q, by simp [List.find?, hq], hq⟩
    · have : hasName ps n = true := by simpa [hasName, hq] using h
      obtain ⟨p, hp, hn⟩ := ih this
      exact ⟨p, by simp [List.find?, hq, hp], hn⟩

theorem find_none_of_hasName (ps : List (Param ν α)) (n : ν) (h : hasName ps n = false) :
    ps.find? (fun p => decide (p.name = n)) = none := by
  induction ps with
  | nil => rfl
  | cons q ps ih =>
    have hq : ¬ q.name = n := by
      intro e; simp [hasName, e] at h
    have : hasName ps n = false := by simpa [hasName, hq] using h
    simp [List.find?, hq, ih this]

/-- rewriting the tuple stored under a name: `d[n] = g(d[n])` on the dict is `modifyParam` on the table -/
theorem dset_fpDict (lx : ν → L) (o : Owner) (f : Param ν α → Param ν α) (hf : ∀ q, (f q).name = q.name) (n : ν) :
    ∀ (ps : List (Param ν α)) (p : Param ν α), (names ps).Nodup →
      ps.find? (fun p => decide (p.name = n)) = some p →
      Py.dset (fpDict lx o ps) n (tupleOf lx o (f p)) = fpDict lx o (modifyParam ps n f) := by
  intro ps
  induction ps with
  | nil => intro p _ h; simp at h
  | cons q ps ih =>
    intro p hnd hfind
    simp only [names, List.map_cons, List.nodup_cons] at hnd
    by_cases hq : q.name = n
    · have hp : q = p := by simpa [List.find?, hq] using hfind
      subst hp
      have hnot : n ∉ names ps := by rw [← hq]; exact hnd.1
      rw [modifyParam_cons, modifyParam_not_mem ps n f hnot]
      simp [fpDict, Py.dset, hq, tupleOf, hf]
    · have hfind' : ps.find? (fun p => decide (p.name = n)) = some p := by simpa [List.find?, hq] using hfind
      rw [modifyParam_cons]
      simp only [fpDict, List.map_cons, Py.dset, hq, if_false] at ih ⊢
      rw [ih p hnd.2 hfind']

theorem getValue_of_find (s : St ν α) (o : Owner) (n : ν) (p : Param ν α)
    (h : (table s o).find? (fun p => decide (p.name = n)) = some p) : getValue s o n = some p.value := by
  simp [getValue, h]

end

/-! ### the common shape of enable_fit / disable_fit / set_boundary / set_factor_boundary / set_mode -/

section
variable {ν α L : Type} [DecidableEq ν]

/-- pick the object that has the name (else the observation), read the tuple stored under the name (KeyError when
    absent), store the rewritten tuple `g v` back: on the dict layout this is the model's `withParam s n f`, provided `g`
    acts on the stored tuple as `f` acts on the parameter -/
theorem withParam_enc (lx : ν → L) (s : St ν α) (n : ν) (f : Param ν α → Param ν α) (hf : ∀ q, (f q).name = q.name)
    (hm : (names s.model).Nodup) (ho : (names s.obs).Nodup) (g : T7 ν α L → T7 ν α L)
    (hg : ∀ o p, (table s o).find? (fun p => decide (p.name = n)) = some p → g (tupleOf lx o p) = tupleOf lx o (f p)) :
    Py.caseE (Py.dgetE (if (if Py.dhas (fpDict lx .model s.model) n then 0 else 1 : Nat) = 0
                      then fpDict lx .model s.model else fpDict lx .obs s.obs) n)
      (fun e => ((fpDict lx .model s.model, fpDict lx .obs s.obs), (Except.error e : Except Py.Err Unit)))
      (fun v =>
       ((if (if Py.dhas (fpDict lx .model s.model) n then 0 else 1 : Nat) = 0
           then Py.dset (fpDict lx .model s.model) n (g v) else fpDict lx .model s.model,
         if (if Py.dhas (fpDict lx .model s.model) n then 0 else 1 : Nat) = 1
           then Py.dset (fpDict lx .obs s.obs) n (g v) else fpDict lx .obs s.obs), Except.ok ()))
      = ((fpDict lx .model (withParam s n f).1.model, fpDict lx .obs (withParam s n f).1.obs),
         outE (withParam s n f).2) := by
  rw [dhas_fpDict]
  cases hmn : hasName s.model n with
  | true =>
    obtain ⟨p, hp, _⟩ := find_of_hasName s.model n hmn
    have hd : Py.dgetE (fpDict lx .model s.model) n = .ok (tupleOf lx .model p) :=
      dgetE_of_get _ _ _ (by rw [dget_fpDict, hp]; rfl)
    simp only [if_true, hd, Py.caseE_ok]
    rw [hg .model p hp, dset_fpDict lx .model f hf n s.model p hm hp]
    simp [withParam, ownerOf, hmn, table, setTable, outE]
  | false =>
    simp only [Bool.false_eq_true, if_false, Nat.succ_ne_self, if_true]
    cases hon : hasName s.obs n with
    | true =>
      obtain ⟨p, hp, _⟩ := find_of_hasName s.obs n hon
      have hd : Py.dgetE (fpDict lx .obs s.obs) n = .ok (tupleOf lx .obs p) :=
        dgetE_of_get _ _ _ (by rw [dget_fpDict, hp]; rfl)
      simp only [hd, Py.caseE_ok]
      rw [hg .obs p hp, dset_fpDict lx .obs f hf n s.obs p ho hp]
      simp [withParam, ownerOf, hmn, hon, table, setTable, outE]
    | false =>
      have hd : Py.dgetE (fpDict lx .obs s.obs) n = .error .keyError :=
        dgetE_of_none _ _ (by rw [dget_fpDict, find_none_of_hasName s.obs n hon]; rfl)
      simp only [hd, Py.caseE_error]
      simp [withParam, ownerOf, hmn, hon, table, outE]

end

/-! ### looking a name up in the owner's dict; mode strings; derived tables -/

section
variable {ν α L : Type} [DecidableEq ν]

/-- `obj = self._model if parameter in self._model.fittingParameters else self._observed; obj.fittingParameters[parameter]` -/
theorem lookup_enc (lx : ν → L) (s : St ν α) (n : ν) :
    (∃ p, (table s (ownerOf s n)).find? (fun p => decide (p.name = n)) = some p ∧ p.name = n ∧
        hasName (table s (ownerOf s n)) n = true ∧
        Py.dgetE (if (if Py.dhas (fpDict lx .model s.model) n then 0 else 1 : Nat) = 0
                    then fpDict lx .model s.model else fpDict lx .obs s.obs) n = .ok (tupleOf lx (ownerOf s n) p)) ∨
    (hasName (table s (ownerOf s n)) n = false ∧
        Py.dgetE (if (if Py.dhas (fpDict lx .model s.model) n then 0 else 1 : Nat) = 0
                    then fpDict lx .model s.model else fpDict lx .obs s.obs) n = .error .keyError) := by
  rw [dhas_fpDict]
  cases hmn : hasName s.model n with
  | true =>
    obtain ⟨p, hp, hn⟩ := find_of_hasName s.model n hmn
    left
    refine ⟨p, by simpa [ownerOf, hmn, table] using hp, hn, by simp [ownerOf, hmn, table], ?_⟩
    simp only [if_true, ownerOf, hmn]
    exact dgetE_of_get _ _ _ (by rw [dget_fpDict, hp]; rfl)
  | false =>
    simp only [Bool.false_eq_true, if_false, Nat.succ_ne_self]
    cases hon : hasName s.obs n with
    | true =>
      obtain ⟨p, hp, hn⟩ := find_of_hasName s.obs n hon
      left
      refine ⟨p, by simpa [ownerOf, hmn, table] using hp, hn, by simp [ownerOf, hmn, hon, table], ?_⟩
      simp only [ownerOf, hmn, Bool.false_eq_true, if_false]
      exact dgetE_of_get _ _ _ (by rw [dget_fpDict, hp]; rfl)
    | false =>
      right
      refine ⟨by simp [ownerOf, hmn, hon, table], ?_⟩
      exact dgetE_of_none _ _ (by rw [dget_fpDict, find_none_of_hasName s.obs n hon]; rfl)

/-- `parameter in obj.fittingParameters` for the chosen object -/
theorem dhas_owner (lx : ν → L) (s : St ν α) (n : ν) :
    Py.dhas (if (if Py.dhas (fpDict lx .model s.model) n then 0 else 1 : Nat) = 0
               then fpDict lx .model s.model else fpDict lx .obs s.obs) n = hasName (table s (ownerOf s n)) n := by
  rw [dhas_fpDict]
  cases hmn : hasName s.model n with
  | true => simp [ownerOf, hmn, table, dhas_fpDict]
  | false => simp [ownerOf, hmn, table, dhas_fpDict]

theorem parseMode_some (m : String) (md : FitMode) (h : parseMode m = some md) : m.toLower = modeStr md := by
  unfold parseMode at h
  simp only [beq_iff_eq] at h
  by_cases h1 : m.toLower = "log"
  · simp [h1] at h; subst h; simpa [modeStr] using h1
  · by_cases h2 : m.toLower = "linear"
    · simp [h2] at h; subst h; simpa [modeStr] using h2
    · simp [h1, h2] at h

theorem parseMode_none (m : String) (h : parseMode m = none) :
    (decide (m.toLower = "log") || decide (m.toLower = "linear")) = false := by
  unfold parseMode at h
  simp only [beq_iff_eq] at h
  by_cases h1 : m.toLower = "log"
  · simp [h1] at h
  · by_cases h2 : m.toLower = "linear"
    · simp [h2] at h
    · simp [h1, h2]

theorem modeStr_valid (md : FitMode) : (decide (modeStr md = "log") || decide (modeStr md = "linear")) = true := by
  cases md <;> simp [modeStr]

/-- the test `mode == 'log'` of `compile_params` on a stored mode string -/
theorem modeStr_log (md : FitMode) : decide (modeStr md = "log") = decide (md = FitMode.log) := by
  cases md <;> simp [modeStr]

theorem dget_dpDict (lx : ν → L) (o : Owner) (ds : List (Derived ν)) (n : ν) :
    Py.dget (dpDict lx o ds) n = (ds.find? (fun d => decide (d.name = n))).map (dtupleOf lx o) := by
  induction ds with
  | nil => rfl
  | cons q ds ih =>
    by_cases h : q.name = n
    · simp [dpDict, Py.dget, List.find?, h]
    · simp only [dpDict, List.map_cons, Py.dget, h, if_false, List.find?, decide_false] at ih ⊢
      exact ih

theorem dhas_dpDict (lx : ν → L) (o : Owner) (ds : List (Derived ν)) (n : ν) :
    Py.dhas (dpDict lx o ds) n = hasDerived ds n := by
  simp [Py.dhas, dpDict, hasDerived, List.any_map, Function.comp_def]

theorem findD_of_hasDerived (ds : List (Derived ν)) (n : ν) (h : hasDerived ds n = true) :
    ∃ d, ds.find? (fun d => decide (d.name = n)) = some d ∧ d.name = n := by
  induction ds with
  | nil => simp [hasDerived] at h
  | cons q ds ih =>
    by_cases hq : q.name = n
    · exact ⟨q, by simp [List.find?, hq], hq⟩
    · have : hasDerived ds n = true := by simpa [hasDerived, hq] using h
      obtain ⟨d, hd, hn⟩ := ih this
      exact ⟨d, by simp [List.find?, hq, hd], hn⟩

theorem findD_none (ds : List (Derived ν)) (n : ν) (h : hasDerived ds n = false) :
    ds.find? (fun d => decide (d.name = n)) = none := by
  induction ds with
  | nil => rfl
  | cons q ds ih =>
    have hq : ¬ q.name = n := by
      intro e; simp [hasDerived, e] at h
    have : hasDerived ds n = false := by simpa [hasDerived, hq] using h
    simp [List.find?, hq, ih this]

/-- `d[n] = (name, latex, fget, c)` on a derived dict is the model's map that sets the compute flag under that name -/
theorem dset_dpDict (lx : ν → L) (o : Owner) (n : ν) (c : Bool) :
    ∀ (ds : List (Derived ν)) (d : Derived ν), (ds.map (·.name)).Nodup →
      ds.find? (fun d => decide (d.name = n)) = some d →
      Py.dset (dpDict lx o ds) n (d.name, lx d.name, (o, d.name), c)
        = dpDict lx o (ds.map (fun d => if d.name = n then { d with compute := c } else d)) := by
  intro ds
  induction ds with
  | nil => intro d _ h; simp at h
  | cons q ds ih =>
    intro d hnd hfind
    simp only [List.map_cons, List.nodup_cons] at hnd
    by_cases hq : q.name = n
    · have hp : q = d := by simpa [List.find?, hq] using hfind
      subst hp
      have hrest : ds.map (fun d => if d.name = n then { d with compute := c } else d) = ds := by
        have : ∀ x ∈ ds, ¬ x.name = n := by
          intro x hx e; apply hnd.1; rw [hq, ← e]; exact List.mem_map_of_mem (f := (·.name)) hx
        calc ds.map (fun d => if d.name = n then { d with compute := c } else d)
            = ds.map id := List.map_congr_left (fun x hx => by simp [this x hx])
          _ = ds := by simp
      simp [dpDict, Py.dset, hq, dtupleOf, hrest]
    · have hfind' : ds.find? (fun d => decide (d.name = n)) = some d := by simpa [List.find?, hq] using hfind
      simp only [dpDict, List.map_cons, Py.dset, hq, if_false] at ih ⊢
      rw [ih d hnd.2 hfind']

end

/-! ### `update_model` and the observers over the compiled rows -/

/-- `none` of the model read as the exception `e` -/
def optE {β : Type} (e : Py.Err) : Option β → Except Py.Err β
  | some v => .ok v
  | none => .error e

section
variable {ν α L : Type} [DecidableEq ν]

/-- the loop of `update_model` over `zip(fit_params, fitting_parameters, fitting_priors)` is `applyUpdate` -/
theorem foldl_update [Transc α] (lx : ν → L) : ∀ (es : List (Entry ν α)) (ps : List (Prior α)) (xs : List α) (s : St ν α),
    List.foldl (fun (w : St ν α) (it : α × T7 ν α L × Prior α) => callSet w it.2.1.2.2.2.1 (it.2.2.back it.1)) s
        (List.zip xs (List.zip (es.map (entryTuple lx)) ps)) = applyUpdate s es ps xs := by
  intro es
  induction es with
  | nil => intro ps xs s; cases ps <;> cases xs <;> simp [applyUpdate]
  | cons e es ih =>
    intro ps xs s
    cases ps with
    | nil => cases xs <;> simp [applyUpdate]
    | cons p ps =>
      cases xs with
      | nil => simp [applyUpdate]
      | cons x xs =>
        simp only [List.map_cons, List.zip_cons_cons, List.foldl_cons, applyUpdate]
        exact ih ps xs _

variable [LT α] [DecidableLT α] [OfNat α 0] [Transc α]

/-- `math.log10`: `ValueError` unless `0 < x` (the model's `log10?`) -/
def mathLog10 (x : α) : Except Py.Err α := optE .valueError (log10? x)

/-- the comprehension of `fit_values` is `fitValuesAux`, for rows whose getter refers to an existing parameter -/
theorem mapE_fit_values (lx : ν → L) (s : St ν α) : ∀ (es : List (Entry ν α)) (ps : List (Prior α)),
    (∀ e ∈ es, (getValue s e.owner e.name).isSome = true) →
    Py.mapE (fun (it : T7 ν α L × Prior α) =>
        if decide (modeCode it.2.mode = (0 : Nat)) then (Except.ok (callGet s it.1.2.2.1) : Except Py.Err α)
        else mathLog10 (callGet s it.1.2.2.1)) (List.zip (es.map (entryTuple lx)) ps)
      = optE .valueError (fitValuesAux s es ps) := by
  intro es
  induction es with
  | nil => intro ps _; cases ps <;> simp [fitValuesAux, optE]
  | cons e es ih =>
    intro ps hex
    cases ps with
    | nil => simp [fitValuesAux, optE]
    | cons p ps =>
      have hv := hex e (by simp)
      obtain ⟨v, hv⟩ := Option.isSome_iff_exists.1 hv
      have ih' := ih ps (fun e' he' => hex e' (by simp [he']))
      rw [List.map_cons, List.zip_cons_cons, Py.mapE_cons, ih']
      simp only [fitValuesAux, reportValue, hv, entryTuple, callGet, Option.getD_some]
      cases hm : p.mode with
      | linear =>
        cases fitValuesAux s es ps <;> simp [modeCode, optE]
      | log =>
        cases hl : log10? v <;> cases fitValuesAux s es ps <;> simp [modeCode, optE, mathLog10, hl]

/-- the comprehension of `fit_boundaries` is `fitBoundariesAux` -/
theorem mapE_fit_boundaries (lx : ν → L) : ∀ (es : List (Entry ν α)) (ps : List (Prior α)),
    Py.mapE (fun (it : T7 ν α L × Prior α) =>
        if decide (modeCode it.2.mode = (0 : Nat)) then (Except.ok it.1.2.2.2.2.2.2 : Except Py.Err (α × α))
        else Py.caseE (mathLog10 it.1.2.2.2.2.2.2.1) (fun e => Except.error e)
              (fun a => Py.caseE (mathLog10 it.1.2.2.2.2.2.2.2) (fun e => Except.error e) (fun b => Except.ok (a, b))))
        (List.zip (es.map (entryTuple lx)) ps)
      = optE .valueError (fitBoundariesAux es ps) := by
  intro es
  induction es with
  | nil => intro ps; cases ps <;> simp [fitBoundariesAux, optE]
  | cons e es ih =>
    intro ps
    cases ps with
    | nil => simp [fitBoundariesAux, optE]
    | cons p ps =>
      rw [List.map_cons, List.zip_cons_cons, Py.mapE_cons, ih ps]
      simp only [fitBoundariesAux, reportBounds, entryTuple]
      cases hm : p.mode with
      | linear => cases fitBoundariesAux es ps <;> simp [modeCode, optE]
      | log =>
        cases h0 : log10? e.b0 <;> cases h1 : log10? e.b1 <;> cases fitBoundariesAux es ps <;>
          simp [modeCode, optE, mathLog10, h0, h1]

end

/-! ### the two loops of the module-level `compile_params` -/

section
variable {ν α L : Type} [DecidableEq ν]

theorem values_fpDict (lx : ν → L) (o : Owner) (ps : List (Param ν α)) :
    Py.values (fpDict lx o ps) = ps.map (tupleOf lx o) := by
  simp [Py.values, fpDict, List.map_map, Function.comp_def]

theorem values_dpDict (lx : ν → L) (o : Owner) (ds : List (Derived ν)) :
    Py.values (dpDict lx o ds) = ds.map (dtupleOf lx o) := by
  simp [Py.values, dpDict, List.map_map, Function.comp_def]

/-- the loop over `driveparams.values()` collects the tuples whose compute flag is set -/
theorem foldl_derived (lx : ν → L) (o : Owner) (F : List (T4 ν L) → T4 ν L → List (T4 ν L))
    (hF : ∀ acc (d : Derived ν), F acc (dtupleOf lx o d) = if d.compute then acc ++ [dtupleOf lx o d] else acc) :
    ∀ (ds : List (Derived ν)) (acc : List (T4 ν L)),
      List.foldl F acc (ds.map (dtupleOf lx o)) = acc ++ derivedTuples lx o ds := by
  intro ds
  induction ds with
  | nil => intro acc; simp [derivedTuples]
  | cons d ds ih =>
    intro acc
    simp only [List.map_cons, List.foldl_cons, hF, ih]
    cases hc : d.compute <;> simp [derivedTuples, hc]

theorem tget_none_of_append (a b : Table ν α) (k : ν) (h : tget (a ++ b) k = none) : tget a k = none := by
  cases ha : tget a k with
  | none => rfl
  | some v =>
    rw [← dget_eq_tget] at h ha
    rw [dget_append_left a b k v ha] at h
    cases h

variable [LT α] [DecidableLT α] [OfNat α 0] [Mul α] [Transc α]

/-- `LogUniform(lin_bounds=b)`: `ValueError` (of `math.log10`) where the model's constructor has `none` -/
def logUniformLin (b : α × α) : Except Py.Err (Prior α) := optE .valueError (mkLogUniformLin b.1 b.2)

/-- `Uniform(bounds=b)` -/
def uniformBounds (b : α × α) : Prior α := mkUniform b.1 b.2

/-- what one iteration of the loop over `fitparams.values()` does to `(fitting_parameters, fitting_priors, _fit_priors)`,
    stated on the tuple of a parameter `p` with the model's `tget` / `tset` / `defaultPrior` -/
structure FitStep (lx : ν → L) (o : Owner)
    (F : List (T7 ν α L) × List (Prior α) × Table ν α → T7 ν α L → (List (T7 ν α L) × List (Prior α) × Table ν α) × Option Py.Err) :
    Prop where
  skip : ∀ ae ap tbl (p : Param ν α), p.fit = false → F (ae, ap, tbl) (tupleOf lx o p) = ((ae, ap, tbl), none)
  known : ∀ ae ap tbl (p : Param ν α) pr, p.fit = true → tget tbl p.name = some pr →
    F (ae, ap, tbl) (tupleOf lx o p) = ((ae ++ [tupleOf lx o p], ap ++ [pr], tbl), none)
  fresh : ∀ ae ap tbl (p : Param ν α) pr, p.fit = true → tget tbl p.name = none → defaultPrior p.mode p.b0 p.b1 = some pr →
    F (ae, ap, tbl) (tupleOf lx o p) = ((ae ++ [tupleOf lx o p], ap ++ [pr], tset tbl p.name pr), none)
  fails : ∀ ae ap tbl (p : Param ν α), p.fit = true → tget tbl p.name = none → defaultPrior p.mode p.b0 p.b1 = none →
    F (ae, ap, tbl) (tupleOf lx o p) = ((ae ++ [tupleOf lx o p], ap, tbl), some .valueError)

theorem entryTuple_entryOf (lx : ν → L) (o : Owner) (p : Param ν α) (h : p.fit = true) :
    entryTuple lx (entryOf o p) = tupleOf lx o p := by
  simp [entryTuple, entryOf, tupleOf, h]

/-- the loop over `fitparams.values()` when `compileTable` succeeds -/
theorem forE_compile_some (lx : ν → L) (o : Owner) (F) (hF : FitStep (α := α) lx o F) :
    ∀ (ps : List (Param ν α)) (ae : List (T7 ν α L)) (ap : List (Prior α)) (tbl : Table ν α)
      (r : List (Entry ν α) × List (Prior α) × Table ν α), compileTable o ps tbl = some r →
      Py.forE (ps.map (tupleOf lx o)) (ae, ap, tbl) F = ((ae ++ r.1.map (entryTuple lx), ap ++ r.2.1, r.2.2), none) := by
  intro ps
  induction ps with
  | nil =>
    intro ae ap tbl r h
    simp only [compileTable, Option.some.injEq] at h
    subst h; simp
  | cons p ps ih =>
    intro ae ap tbl r h
    unfold compileTable at h
    rw [List.map_cons, Py.forE_cons]
    by_cases hf : p.fit = true
    · simp only [hf, if_true] at h
      cases hg : tget tbl p.name with
      | some pr =>
        simp only [hg] at h
        cases hc : compileTable o ps tbl with
        | none => simp [hc] at h
        | some r' =>
          simp only [hc, Option.map_some, Option.some.injEq] at h
          subst h
          rw [hF.known ae ap tbl p pr hf hg]
          simp only [ih _ _ _ r' hc, entryTuple_entryOf lx o p hf, List.map_cons, List.append_assoc, List.singleton_append]
      | none =>
        simp only [hg] at h
        cases hd : defaultPrior p.mode p.b0 p.b1 with
        | none => simp [hd] at h
        | some pr =>
          simp only [hd] at h
          cases hc : compileTable o ps (tset tbl p.name pr) with
          | none => simp [hc] at h
          | some r' =>
            simp only [hc, Option.map_some, Option.some.injEq] at h
            subst h
            rw [hF.fresh ae ap tbl p pr hf hg hd]
            simp only [ih _ _ _ r' hc, entryTuple_entryOf lx o p hf, List.map_cons, List.append_assoc,
              List.singleton_append]
    · have hf' : p.fit = false := by simpa using hf
      simp only [hf', Bool.false_eq_true, if_false] at h
      rw [hF.skip ae ap tbl p hf']
      exact ih ae ap tbl r h

/-- the loop over `fitparams.values()` when `compileTable` fails: it stops with `ValueError`; the dict it was filling is the
    incoming one plus the default priors stored before the failure (all under names the incoming dict did not have) -/
theorem forE_compile_none (lx : ν → L) (o : Owner) (F) (hF : FitStep (α := α) lx o F) :
    ∀ (ps : List (Param ν α)) (ae : List (T7 ν α L)) (ap : List (Prior α)) (tbl : Table ν α),
      compileTable o ps tbl = none →
      ∃ ae' ap' extra, Py.forE (ps.map (tupleOf lx o)) (ae, ap, tbl) F = ((ae', ap', tbl ++ extra), some .valueError) ∧
        ∀ kv ∈ extra, tget tbl kv.1 = none := by
  intro ps
  induction ps with
  | nil => intro ae ap tbl h; simp [compileTable] at h
  | cons p ps ih =>
    intro ae ap tbl h
    unfold compileTable at h
    rw [List.map_cons, Py.forE_cons]
    by_cases hf : p.fit = true
    · simp only [hf, if_true] at h
      cases hg : tget tbl p.name with
      | some pr =>
        simp only [hg, Option.map_eq_none_iff] at h
        rw [hF.known ae ap tbl p pr hf hg]
        exact ih _ _ tbl h
      | none =>
        simp only [hg] at h
        cases hd : defaultPrior p.mode p.b0 p.b1 with
        | none =>
          rw [hF.fails ae ap tbl p hf hg hd]
          exact ⟨ae ++ [tupleOf lx o p], ap, [], by simp, by simp⟩
        | some pr =>
          simp only [hd, Option.map_eq_none_iff] at h
          rw [hF.fresh ae ap tbl p pr hf hg hd]
          obtain ⟨ae', ap', extra, he, hx⟩ := ih (ae ++ [tupleOf lx o p]) (ap ++ [pr]) (tset tbl p.name pr) h
          have hts : tset tbl p.name pr = tbl ++ [(p.name, pr)] := by
            rw [← dset_eq_tset]; exact dset_new tbl p.name pr (by rw [dget_eq_tget]; exact hg)
          refine ⟨ae', ap', (p.name, pr) :: extra, ?_, ?_⟩
          · rw [hts] at he ⊢
            simp only [he, List.append_assoc, List.singleton_append]
          · intro kv hkv
            rcases List.mem_cons.1 hkv with h1 | h1
            · subst h1; exact hg
            · have := hx kv h1
              rw [hts] at this
              exact tget_none_of_append _ _ _ this
    · have hf' : p.fit = false := by simpa using hf
      simp only [hf', Bool.false_eq_true, if_false] at h
      rw [hF.skip ae ap tbl p hf']
      exact ih ae ap tbl h

end

/-! ### dict keys stay distinct -/

section
variable {ν α : Type} [DecidableEq ν]

theorem tset_keys (t : Table ν α) (n : ν) (p : Prior α) :
    (tset t n p).map (·.1) = if tget t n = none then t.map (·.1) ++ [n] else t.map (·.1) := by
  induction t with
  | nil => simp [tset, tget]
  | cons kv t ih =>
    obtain ⟨k, q⟩ := kv
    by_cases hk : k = n
    · simp [tset, tget, hk]
    · simp only [tset, tget, hk, if_false, List.map_cons, ih]
      split <;> simp

theorem tget_none_not_mem (t : Table ν α) (n : ν) (h : tget t n = none) : n ∉ t.map (·.1) := by
  induction t with
  | nil => simp
  | cons kv t ih =>
    obtain ⟨k, q⟩ := kv
    by_cases hk : k = n
    · simp [tget, hk] at h
    · simp only [tget, hk, if_false] at h
      simp only [List.map_cons, List.mem_cons, not_or]
      exact ⟨fun e => hk e.symm, ih h⟩

theorem tset_nodup (t : Table ν α) (n : ν) (p : Prior α) (h : (t.map (·.1)).Nodup) : ((tset t n p).map (·.1)).Nodup := by
  rw [tset_keys]
  split
  · rename_i hg
    rw [List.nodup_append]
    refine ⟨h, by simp, ?_⟩
    intro a ha b hb
    simp only [List.mem_singleton] at hb
    subst hb
    intro e; subst e
    exact tget_none_not_mem t _ hg ha
  · exact h

variable [LT α] [DecidableLT α] [OfNat α 0] [Mul α] [Transc α]

theorem compileTable_nodup (o : Owner) (ps : List (Param ν α)) :
    ∀ (tbl : Table ν α) (r : List (Entry ν α) × List (Prior α) × Table ν α),
      compileTable o ps tbl = some r → (tbl.map (·.1)).Nodup → (r.2.2.map (·.1)).Nodup := by
  induction ps with
  | nil =>
    intro tbl r h hn
    simp only [compileTable, Option.some.injEq] at h
    subst h; exact hn
  | cons p ps ih =>
    intro tbl r h hn
    unfold compileTable at h
    by_cases hf : p.fit = true
    · simp only [hf, if_true] at h
      cases hg : tget tbl p.name with
      | some pr =>
        simp only [hg] at h
        cases hc : compileTable o ps tbl with
        | none => simp [hc] at h
        | some r' =>
          simp only [hc, Option.map_some, Option.some.injEq] at h
          subst h
          exact ih tbl r' hc hn
      | none =>
        simp only [hg] at h
        cases hd : defaultPrior p.mode p.b0 p.b1 with
        | none => simp [hd] at h
        | some pr =>
          simp only [hd] at h
          cases hc : compileTable o ps (tset tbl p.name pr) with
          | none => simp [hc] at h
          | some r' =>
            simp only [hc, Option.map_some, Option.some.injEq] at h
            subst h
            exact ih _ r' hc (tset_nodup tbl p.name pr hn)
    · simp only [hf, Bool.false_eq_true, if_false] at h
      exact ih tbl r h hn

/-! ### `_user_priors` stays a dict (distinct keys) along every history -/

/-- `_user_priors` is written by `set_prior` only (`dict[n] = p`); every other operation leaves it as it is -/
theorem userPriors_step (s : St ν α) (op : Op ν α) :
    (step s op).1.userPriors = s.userPriors ∨ ∃ n p, (step s op).1.userPriors = tset s.userPriors n p := by
  have hwp : ∀ (n : ν) (f : Param ν α → Param ν α), (withParam s n f).1.userPriors = s.userPriors := by
    intro n f
    unfold withParam
    simp only
    split
    · cases ownerOf s n <;> rfl
    · rfl
  have hwd : ∀ (n : ν) (c : Bool), (withDerived s n c).1.userPriors = s.userPriors := by
    intro n c
    unfold withDerived
    simp only
    split
    · rfl
    · split <;> rfl
  cases op with
  | enableFit n => exact .inl (hwp n _)
  | disableFit n => exact .inl (hwp n _)
  | setBoundary n a b => exact .inl (hwp n _)
  | setFactorBoundary n a b => exact .inl (hwp n _)
  | enableDerived n => exact .inl (hwd n _)
  | disableDerived n => exact .inl (hwd n _)
  | setMode n m =>
    left
    simp only [step]
    split
    · split
      · rfl
      · cases ownerOf s n <;> rfl
    · rfl
  | setPrior n p =>
    simp only [step]
    split
    · exact .inr ⟨n, p, rfl⟩
    · exact .inl rfl
  | compile =>
    left
    simp only [step, compile]
    split
    · rfl
    · split <;> rfl
  | updateModel v =>
    left
    simp only [step, updateModel]
    split
    · rfl
    · have := frame_applyUpdate s.compiled s s.compiledPriors v
      simp only [frame, Prod.mk.injEq] at this
      exact this.2.2.2.2.1

/-- one operation keeps the keys of `_user_priors` pairwise distinct -/
theorem userPriors_nodup_step (s : St ν α) (op : Op ν α) (h : (s.userPriors.map (·.1)).Nodup) :
    ((step s op).1.userPriors.map (·.1)).Nodup := by
  rcases userPriors_step s op with he | ⟨n, p, he⟩
  · rw [he]; exact h
  · rw [he]; exact tset_nodup _ n p h

/-- **the keys of `_user_priors` stay pairwise distinct along every history** -/
theorem userPriors_nodup_run (ops : List (Op ν α)) :
    ∀ (s : St ν α), (s.userPriors.map (·.1)).Nodup → ((run s ops).userPriors.map (·.1)).Nodup := by
  induction ops with
  | nil => intro s h; exact h
  | cons op ops ih => intro s h; simp only [run]; exact ih _ (userPriors_nodup_step s op h)

/-- a fresh optimizer has an empty `_user_priors`: along every history from it the keys are pairwise distinct -/
theorem userPriors_nodup_run_init (model obs : List (Param ν α)) (dm dob : List (Derived ν)) (ops : List (Op ν α)) :
    ((run (initSt model obs dm dob) ops).userPriors.map (·.1)).Nodup :=
  userPriors_nodup_run ops _ (by simp [initSt])

end

/-- proves `FitStep lx o F` for the loop body `F` of the regenerated `compile_params` -/
macro "fit_step" : tactic => `(tactic|
  (constructor
   · intro ae ap tbl p hf; simp [tupleOf, hf]
   · intro ae ap tbl p pr hf hg
     simp [tupleOf, hf, dhas_eq, dget_eq_tget, hg, Py.dgetE]
   · intro ae ap tbl p pr hf hg hd
     cases hm : p.mode <;>
       simp [tupleOf, hf, dhas_eq, dget_eq_tget, hg, modeStr, dset_eq_tset, hm, defaultPrior, logUniformLin, uniformBounds,
         optE] at hd ⊢
     · subst hd; exact ⟨rfl, rfl⟩
     · simp [hd]
   · intro ae ap tbl p hf hg hd
     cases hm : p.mode <;>
       simp [tupleOf, hf, dhas_eq, dget_eq_tget, hg, modeStr, hm, defaultPrior, logUniformLin, optE] at hd ⊢
     simp [hd]))

end Taurex.C07Src
