/-
  Helper lemmas for the C20 theorems (correlated-k), over the real carrier.
-/
import Proofs.C02Full
import TaurexModel.KTau
import Mathlib.Analysis.SpecialFunctions.Log.Basic

namespace Taurex.KTau
open Taurex.Emission

theorem transK_eq (taus ws : List ℝ) :
    transK taus ws = ((taus.zip ws).map (fun p => Real.exp (-p.1) * p.2)).sum := by
  unfold transK
  rw [foldl_add_sum]; simp

theorem transKmu_eq (taus ws : List ℝ) (m : ℝ) :
    transKmu taus ws m = ((taus.zip ws).map (fun p => Real.exp ((-p.1) * m) * p.2)).sum := by
  unfold transKmu
  rw [foldl_add_sum]; simp

theorem sum_snd_zip (taus ws : List ℝ) (hlen : taus.length = ws.length) :
    ((taus.zip ws).map (fun p => p.2)).sum = ws.sum := by
  have := List.map_snd_zip (l₁ := taus) (l₂ := ws) (by omega)
  have h2 : (taus.zip ws).map (fun p => p.2) = ws := by simpa using this
  rw [h2]

/-- all optical depths equal: the weighted transmittance is `exp(-τ)·Σw` -/
theorem transK_const (taus ws : List ℝ) (τ : ℝ) (hlen : taus.length = ws.length) (hall : ∀ t ∈ taus, t = τ) :
    transK taus ws = Real.exp (-τ) * ws.sum := by
  rw [transK_eq, ← sum_snd_zip taus ws hlen, ← List.sum_map_mul_left]
  congr 1
  apply List.map_congr_left
  intro p hp
  rw [hall p.1 (List.of_mem_zip hp).1]

theorem transKmu_const (taus ws : List ℝ) (τ m : ℝ) (hlen : taus.length = ws.length) (hall : ∀ t ∈ taus, t = τ) :
    transKmu taus ws m = Real.exp ((-τ) * m) * ws.sum := by
  rw [transKmu_eq, ← sum_snd_zip taus ws hlen, ← List.sum_map_mul_left]
  congr 1
  apply List.map_congr_left
  intro p hp
  rw [hall p.1 (List.of_mem_zip hp).1]

/-- tangent-line form of Jensen's inequality for `exp`, term by term -/
theorem tangent_sum (l : List (ℝ × ℝ)) (a : ℝ) (hw : ∀ p ∈ l, 0 ≤ p.2) :
    Real.exp a * ((1 - a) * (l.map (fun p => p.2)).sum - (l.map (fun p => p.1 * p.2)).sum)
      ≤ (l.map (fun p => Real.exp (-p.1) * p.2)).sum := by
  induction l with
  | nil => simp
  | cons p ps ih =>
    have h0 := hw p (by simp)
    have ih' := ih (fun q hq => hw q (by simp [hq]))
    simp only [List.map_cons, List.sum_cons]
    have ht : Real.exp a * (1 - p.1 - a) ≤ Real.exp (-p.1) := by
      have h1 := Real.add_one_le_exp (-p.1 - a)
      have h2 : Real.exp (-p.1) = Real.exp a * Real.exp (-p.1 - a) := by
        rw [← Real.exp_add]; congr 1; ring
      rw [h2]
      have := Real.exp_pos a
      nlinarith
    nlinarith [mul_le_mul_of_nonneg_right ht h0]

theorem exp_le_one_sum (l : List (ℝ × ℝ)) (hw : ∀ p ∈ l, 0 ≤ p.2) (ht : ∀ p ∈ l, 0 ≤ p.1) :
    (l.map (fun p => Real.exp (-p.1) * p.2)).sum ≤ (l.map (fun p => p.2)).sum := by
  induction l with
  | nil => simp
  | cons p ps ih =>
    have h0 := hw p (by simp)
    have h1 := ht p (by simp)
    have ih' := ih (fun q hq => hw q (by simp [hq])) (fun q hq => ht q (by simp [hq]))
    simp only [List.map_cons, List.sum_cons]
    have : Real.exp (-p.1) ≤ 1 := by
      rw [← Real.exp_zero]; exact Real.exp_le_exp.2 (by linarith)
    nlinarith

theorem tauRowX_acc (sigma path dens : List ℝ) (n l : Nat) (acc : ℝ) :
    tauRowX sigma path dens n l acc = acc + tauRowX sigma path dens n l 0 := by
  unfold tauRowX
  rw [foldl_add_sum, foldl_add_sum]; ring

/-! ### the emission k-path on a degenerate table -/

theorem tauRange_cons (c : Kind × List ℝ) (cs : List (Kind × List ℝ)) (dz dens : List ℝ) (lo hi : Nat) :
    tauRange (c :: cs) dz dens lo hi = colSum c dz dens lo hi + tauRange cs dz dens lo hi := by
  rw [tauRange_eq, tauRange_eq]; simp

theorem kRange_deg (sigma3 : List (List ℝ)) (sigma dz dens : List ℝ) (lo hi g : Nat)
    (hdeg : ∀ j, at3 sigma3 j g = sigma.getD j 0) :
    kRange sigma3 dz dens lo hi g = colSum (Kind.lin, sigma) dz dens lo hi := by
  unfold kRange colSum
  rw [foldl_add_sum, zero_add]
  congr 1
  apply List.map_congr_left
  intro j _
  simp only [elem, hdeg j]

theorem kRangeScaled_deg (sigma3 : List (List ℝ)) (sigma dz dens : List ℝ) (m : ℝ) (lo hi g : Nat)
    (hdeg : ∀ j, at3 sigma3 j g = sigma.getD j 0) :
    kRangeScaled sigma3 dz dens m lo hi g = colSum (Kind.lin, sigma) dz dens lo hi * m := by
  unfold kRangeScaled colSum
  rw [foldl_add_sum, zero_add, ← List.sum_map_mul_right]
  congr 1
  apply List.map_congr_left
  intro j _
  simp only [elem, hdeg j]
  ring

theorem intensityUncut_fold (k : PC ℝ) (dz dens temps : List ℝ) (m : ℝ) (col : Col ℝ) :
    intensityUncut k dz dens temps m col
      = (List.range temps.length).foldl (fun i l =>
          i + (planck k col.nu (temps.getD l 0) / k.pi)
            * (Real.exp ((-(layerTau col.sig dz dens temps.length l)) * m)
               - Real.exp ((-(dTau col.sig dz dens temps.length l)) * m)))
          (planck k col.nu (temps.getD 0 0) / k.pi * Real.exp ((-(surfTau dz dens temps col)) * m)) := by
  unfold intensityUncut intensityRows rowsUncut rowsWith b0Of
  simp only [List.foldl_map]
  rfl

theorem transKmu_deg (f : Nat → ℝ) (ws : List ℝ) (τ m : ℝ) (hf : ∀ g, g < ws.length → f g = τ) (hw : ws.sum = 1) :
    transKmu ((List.range ws.length).map f) ws m = Real.exp ((-τ) * m) := by
  rw [transKmu_const _ ws τ m (by simp), hw, mul_one]
  intro t ht
  simp only [List.mem_map, List.mem_range] at ht
  obtain ⟨g, hg, rfl⟩ := ht
  exact hf g hg

theorem ktau_deg (f : Nat → ℝ) (ws : List ℝ) (τ : ℝ) (hf : ∀ g, g < ws.length → f g = τ) (hw : ws.sum = 1) :
    ktau ((List.range ws.length).map f) ws = τ := by
  unfold ktau
  simp only [log_real]
  rw [transK_const _ ws τ (by simp), hw, mul_one, Real.log_exp]
  · ring
  · intro t ht
    simp only [List.mem_map, List.mem_range] at ht
    obtain ⟨g, hg, rfl⟩ := ht
    exact hf g hg

theorem emissionK_deg (k : PC ℝ) (nonmol : List (Kind × List ℝ)) (sigma3 : List (List ℝ))
    (sigma ws dz dens temps : List ℝ) (nu m : ℝ)
    (hdeg : ∀ j g, g < ws.length → at3 sigma3 j g = sigma.getD j 0) (hw : ws.sum = 1) :
    emissionK k nonmol sigma3 ws dz dens temps nu m
      = intensityUncut k dz dens temps m ⟨nu, (Kind.lin, sigma) :: nonmol⟩ := by
  rw [intensityUncut_fold]
  unfold emissionK
  simp only [exp_real]
  have hs : ktau ((List.range ws.length).map (kRangeScaled sigma3 dz dens m 0 temps.length)) ws
      = colSum (Kind.lin, sigma) dz dens 0 temps.length * m :=
    ktau_deg _ ws _ (fun g hg => kRangeScaled_deg sigma3 sigma dz dens m 0 _ g (fun j => hdeg j g hg)) hw
  have hL : ∀ l, transKmu ((List.range ws.length).map (kRange sigma3 dz dens (l + 1) temps.length)) ws m
      = Real.exp ((-(colSum (Kind.lin, sigma) dz dens (l + 1) temps.length)) * m) := fun l =>
    transKmu_deg _ ws _ m (fun g hg => kRange_deg sigma3 sigma dz dens _ _ g (fun j => hdeg j g hg)) hw
  have hD : ∀ l, transKmu ((List.range ws.length).map
        (fun g => kRange sigma3 dz dens l (l + 1) g + kRange sigma3 dz dens (l + 1) temps.length g)) ws m
      = Real.exp ((-(colSum (Kind.lin, sigma) dz dens l (l + 1)
          + colSum (Kind.lin, sigma) dz dens (l + 1) temps.length)) * m) := fun l =>
    transKmu_deg _ ws _ m (fun g hg => by
      rw [kRange_deg sigma3 sigma dz dens _ _ g (fun j => hdeg j g hg),
        kRange_deg sigma3 sigma dz dens _ _ g (fun j => hdeg j g hg)]) hw
  rw [hs]
  congr 1
  · funext i l
    rw [hL l, hD l]
    simp only [layerTau, dTau, tauRange_cons, ← Real.exp_add]
    congr 3 <;> ring_nf
  · simp only [surfTau, tauRange_cons]
    congr 2
    ring

end Taurex.KTau
