/-
  C15 — helper lemmas about `Taurex.Factory` (core Lean only).
-/
import TaurexModel.Factory

namespace Taurex.C15L
open Taurex.Factory

deriving instance DecidableEq for Except

/-! ### lookup / candidates -/

theorem lookup_eq_head_candidates (cls : List Klass) (kw : String) :
    lookup cls kw = (candidates cls kw).head? := by
  induction cls with
  | nil => rfl
  | cons k rest ih =>
    unfold lookup candidates at *
    by_cases h : claims k kw = true
    · rw [List.find?_cons_of_pos (by exact h), List.filter_cons_of_pos (by exact h)]
      rfl
    · rw [List.find?_cons_of_neg (by exact h), List.filter_cons_of_neg (by exact h)]
      exact ih

theorem candidates_perm {a b : List Klass} (h : a.Perm b) (kw : String) :
    (candidates a kw).Perm (candidates b kw) := h.filter _

/-- in a pairwise-disjoint list at most one class claims a given keyword -/
theorem disjoint_candidates_le_one (cls : List Klass) (kw : String) (h : pairwiseDisjoint cls = true) :
    (candidates cls kw).length ≤ 1 := by
  induction cls with
  | nil => simp [candidates]
  | cons k rest ih =>
    simp only [pairwiseDisjoint, Bool.and_eq_true] at h
    have ihr := ih h.2
    unfold candidates at *
    by_cases hk : claims k kw = true
    · -- nothing in `rest` claims kw
      have hnone : rest.filter (fun x => claims x kw) = [] := by
        rw [List.filter_eq_nil_iff]
        intro x hx
        have hd := h.1
        simp only [disjointFrom, List.all_eq_true] at hd
        have hkw : kw ∈ k.keywords := by
          simpa [claims, List.contains_iff_mem] using hk
        have := hd kw hkw x hx
        simpa using this
      rw [List.filter_cons_of_pos (by exact hk), hnone]
      simp
    · rw [List.filter_cons_of_neg (by exact hk)]
      exact ihr

theorem perm_length_le_one_eq {α : Type} {a b : List α} (h : a.Perm b) (hl : a.length ≤ 1) : a = b := by
  match a, b, h.length_eq, hl with
  | [], [], _, _ => rfl
  | [x], [y], _, _ =>
    have := h.mem_iff (a := x)
    simp at this
    simp [this]
  | [], _ :: _, hlen, _ => simp at hlen
  | [_], [], hlen, _ => simp at hlen
  | [_], _ :: _ :: _, hlen, _ => simp at hlen
  | _ :: _ :: _, _, _, hl => simp at hl

/-! ### create_klass -/

def step (kw : Config) (kv : String × Value) : Except Err Config :=
  if hasKey kw kv.1 then .ok (dictSet kw kv.1 kv.2) else .error (.keyError kv.1)

theorem createKlass_eq (d cfg : Config) : createKlass d cfg = cfg.foldlM step d := rfl

theorem dictSet_of_hasKey {c : Config} {k : String} (v : Value) (h : hasKey c k = true) :
    dictSet c k v = c.map (fun kv => if kv.1 == k then (k, v) else kv) := by
  simp [dictSet, h]

theorem keys_dictSet {c : Config} {k : String} (v : Value) (h : hasKey c k = true) :
    (dictSet c k v).map (·.1) = c.map (·.1) := by
  rw [dictSet_of_hasKey v h, List.map_map]
  apply List.map_congr_left
  intro kv _
  by_cases hk : kv.1 = k
  · simp [hk]
  · simp [hk]

theorem hasKey_iff_mem_keys (c : Config) (k : String) : hasKey c k = true ↔ k ∈ c.map (·.1) := by
  simp [hasKey, List.any_eq_true]

theorem hasKey_congr {c c' : Config} (h : c'.map (·.1) = c.map (·.1)) (k : String) : hasKey c' k = hasKey c k := by
  have := hasKey_iff_mem_keys c k
  have := hasKey_iff_mem_keys c' k
  cases h1 : hasKey c k <;> cases h2 : hasKey c' k <;> simp_all

/-- the strict loop fails exactly when some config key is not a constructor keyword, and then with that key -/
theorem createKlass_error (d cfg : Config) (e : Err) (h : createKlass d cfg = .error e) :
    ∃ kv ∈ cfg, hasKey d kv.1 = false ∧ e = .keyError kv.1 := by
  rw [createKlass_eq] at h
  induction cfg generalizing d with
  | nil => simp [List.foldlM, pure, Except.pure] at h
  | cons kv rest ih =>
    rw [List.foldlM_cons] at h
    by_cases hk : hasKey d kv.1 = true
    · simp only [step, hk, if_true] at h
      have h' : rest.foldlM step (dictSet d kv.1 kv.2) = .error e := h
      obtain ⟨kv', hm, hf, he⟩ := ih _ h'
      refine ⟨kv', List.mem_cons_of_mem _ hm, ?_, he⟩
      rw [← hf]; exact (hasKey_congr (keys_dictSet kv.2 hk) kv'.1).symm
    · simp only [Bool.not_eq_true] at hk
      simp only [step, hk] at h
      have : (Except.error (Err.keyError kv.1) : Except Err Config) = .error e := h
      cases this
      exact ⟨kv, List.mem_cons_self, hk, rfl⟩

/-- when every config key is a constructor keyword the loop succeeds with the defaults overridden in turn -/
theorem createKlass_ok (d cfg : Config) (h : ∀ kv ∈ cfg, hasKey d kv.1 = true) :
    createKlass d cfg = .ok (cfg.foldl (fun kw kv => dictSet kw kv.1 kv.2) d) := by
  rw [createKlass_eq]
  induction cfg generalizing d with
  | nil => rfl
  | cons kv rest ih =>
    rw [List.foldlM_cons, List.foldl_cons]
    have hk := h kv List.mem_cons_self
    simp only [step, hk, if_true]
    have : ∀ kv' ∈ rest, hasKey (dictSet d kv.1 kv.2) kv'.1 = true := by
      intro kv' hm
      rw [hasKey_congr (keys_dictSet kv.2 hk)]
      exact h kv' (List.mem_cons_of_mem _ hm)
    exact ih _ this

/-- success means every config key was a constructor keyword -/
theorem createKlass_ok_keys (d cfg r : Config) (h : createKlass d cfg = .ok r) :
    ∀ kv ∈ cfg, hasKey d kv.1 = true := by
  rw [createKlass_eq] at h
  induction cfg generalizing d with
  | nil => intro kv hm; cases hm
  | cons kv rest ih =>
    rw [List.foldlM_cons] at h
    by_cases hk : hasKey d kv.1 = true
    · simp only [step, hk, if_true] at h
      have h' : rest.foldlM step (dictSet d kv.1 kv.2) = .ok r := h
      intro kv' hm
      rcases List.mem_cons.mp hm with rfl | hm
      · exact hk
      · rw [← hasKey_congr (keys_dictSet kv.2 hk)]
        exact ih _ h' kv' hm
    · simp only [Bool.not_eq_true] at hk
      simp only [step, hk] at h
      have : (Except.error (Err.keyError kv.1) : Except Err Config) = .ok r := h
      cases this

theorem createKlass_unknown (d cfg : Config) (kv : String × Value) (hm : kv ∈ cfg)
    (hk : hasKey d kv.1 = false) : ∃ k, createKlass d cfg = .error (.keyError k) := by
  cases hres : createKlass d cfg with
  | error e =>
    obtain ⟨kv', _, _, he⟩ := createKlass_error d cfg e hres
    exact ⟨kv'.1, by rw [he]⟩
  | ok r =>
    have := createKlass_ok_keys d cfg r hres kv hm
    rw [hk] at this
    cases this

theorem lookup_none_of_not_mem (c : Config) (k : String) (h : k ∉ c.map (·.1)) : c.lookup k = none := by
  induction c with
  | nil => rfl
  | cons kv rest ih =>
    simp only [List.map_cons, List.mem_cons, not_or] at h
    rw [List.lookup_cons]
    have : (k == kv.1) = false := by simpa using h.1
    rw [this]
    exact ih h.2

/-- with unique config keys the result of the strict loop is: every default, overridden by the config value of
    the same key when there is one — same keys, same order -/
theorem fold_dictSet (d cfg : Config) (hall : ∀ kv ∈ cfg, hasKey d kv.1 = true)
    (hnd : (cfg.map (·.1)).Nodup) :
    cfg.foldl (fun kw kv => dictSet kw kv.1 kv.2) d = d.map (fun kv => (kv.1, (cfg.lookup kv.1).getD kv.2)) := by
  induction cfg generalizing d with
  | nil => simp
  | cons kv rest ih =>
    rw [List.foldl_cons]
    have hk := hall kv List.mem_cons_self
    simp only [List.map_cons, List.nodup_cons] at hnd
    have hrest : ∀ kv' ∈ rest, hasKey (dictSet d kv.1 kv.2) kv'.1 = true := by
      intro kv' hm
      rw [hasKey_congr (keys_dictSet kv.2 hk)]
      exact hall kv' (List.mem_cons_of_mem _ hm)
    rw [ih _ hrest hnd.2, dictSet_of_hasKey kv.2 hk, List.map_map]
    apply List.map_congr_left
    intro e _
    obtain ⟨k, v⟩ := kv
    simp only [Function.comp, List.lookup_cons]
    by_cases he : e.1 = k
    · have hn := lookup_none_of_not_mem rest k hnd.1
      simp [he, hn]
    · have : (e.1 == k) = false := by simpa using he
      simp [this]

/-! ### transform -/

/-- a typed number: what `float()` returns -/
def isNum : Scalar → Bool
  | .dec _ _ _ => true
  | .inf _ => true
  | .nan => true
  | _ => false

theorem parseNumberL_isNum (l : List Char) (n : Scalar) (h : parseNumberL l = some n) : isNum n = true := by
  unfold parseNumberL at h
  simp only at h
  split at h
  · cases h; rfl
  · split at h
    · cases h; rfl
    · split at h
      · cases h; rfl
      · cases h

theorem toFloat_isNum (s n : Scalar) (h : toFloat s = some n) : isNum n = true := by
  cases s <;> simp only [toFloat] at h <;> try (cases h; rfl)
  · cases h
  · exact parseNumberL_isNum _ _ h

theorem toFloat_of_isNum (n : Scalar) (h : isNum n = true) : toFloat n = some n := by
  cases n <;> simp_all [isNum, toFloat]

theorem mapM_toFloat_isNum (l ns : List Scalar) (h : l.mapM toFloat = some ns) : ∀ n ∈ ns, isNum n = true := by
  induction l generalizing ns with
  | nil => simp at h; subst h; intro n hn; cases hn
  | cons x xs ih =>
    rw [List.mapM_cons] at h
    cases hx : toFloat x with
    | none => simp [hx] at h
    | some y =>
      cases hxs : xs.mapM toFloat with
      | none => simp [hx, hxs] at h
      | some ys =>
        simp [hx, hxs] at h
        subst h
        intro n hn
        rcases List.mem_cons.mp hn with rfl | hn
        · exact toFloat_isNum _ _ hx
        · exact ih ys hxs n hn

theorem mapM_toFloat_fix (ns : List Scalar) (h : ∀ n ∈ ns, isNum n = true) : ns.mapM toFloat = some ns := by
  induction ns with
  | nil => rfl
  | cons x xs ih =>
    rw [List.mapM_cons, toFloat_of_isNum x (h x List.mem_cons_self),
      ih (fun n hn => h n (List.mem_cons_of_mem _ hn))]
    rfl

theorem transform_str (s : String) : transform (.scalar (.str s)) =
    if trueWords.contains (lower s) then .scalar (.bool true)
    else if falseWords.contains (lower s) then .scalar (.bool false)
    else match parseNumber s with
      | some n => .scalar n
      | none => .scalar (.str s) := rfl

theorem transform_list (l : List Scalar) : transform (.list l) =
    match l.mapM toFloat with
    | some ns => .list ns
    | none => .list l := rfl

/-! ### `split('+')` -/

/-- `c.join(parts)` -/
def joinWith (c : Char) : List (List Char) → List Char
  | [] => []
  | [p] => p
  | p :: q :: rest => p ++ c :: joinWith c (q :: rest)

theorem splitOnC_ne_nil (c : Char) (l : List Char) : splitOnC c l ≠ [] := by
  cases l with
  | nil => simp [splitOnC]
  | cons x xs =>
    unfold splitOnC
    split
    · simp
    · split <;> simp

theorem join_splitOnC (c : Char) (l : List Char) : joinWith c (splitOnC c l) = l := by
  induction l with
  | nil => rfl
  | cons x xs ih =>
    unfold splitOnC
    split
    · next hx =>
      cases hs : splitOnC c xs with
      | nil => exact absurd hs (splitOnC_ne_nil c xs)
      | cons h t => rw [hs] at ih; simp [joinWith, ih, hx]
    · cases hs : splitOnC c xs with
      | nil => exact absurd hs (splitOnC_ne_nil c xs)
      | cons h t =>
        rw [hs] at ih
        cases t with
        | nil => simp [joinWith] at ih ⊢; exact ih
        | cons q r => simp [joinWith] at ih ⊢; exact ih

theorem splitOnC_no_sep (c : Char) (l : List Char) : ∀ p ∈ splitOnC c l, c ∉ p := by
  induction l with
  | nil => intro p hp; simp [splitOnC] at hp; subst hp; simp
  | cons x xs ih =>
    intro p hp
    unfold splitOnC at hp
    split at hp
    · rcases List.mem_cons.mp hp with rfl | hp
      · simp
      · exact ih p hp
    · next hx =>
      cases hs : splitOnC c xs with
      | nil => exact absurd hs (splitOnC_ne_nil c xs)
      | cons h t =>
        rw [hs] at hp ih
        simp only at hp
        rcases List.mem_cons.mp hp with rfl | hp
        · intro hc
          rcases List.mem_cons.mp hc with rfl | hc
          · exact hx rfl
          · exact ih h List.mem_cons_self hc
        · exact ih p (List.mem_cons_of_mem _ hp)

end Taurex.C15L
