/-
  Helper lemmas for the file decoders / encoders of C14, over an arbitrary linearly ordered field.
-/
import Mathlib.Algebra.Order.Field.Basic
import Mathlib.Tactic.NormNum
import Mathlib.Tactic.FieldSimp
import Mathlib.Tactic.Linarith
import Mathlib.Tactic.Ring
import TaurexModel.Loaders

set_option linter.unusedSectionVars false

namespace Taurex.Loaders

variable {K : Type} [Field K] [LinearOrder K] [IsStrictOrderedRing K]

/-! ### units -/

theorem unitDirect_ne_zero {u : String} {c : K} (h : unitDirect u = some c) : c ≠ 0 := by
  unfold unitDirect at h
  split_ifs at h <;> (cases h; norm_num)

theorem unitCds_ne_zero {u : String} {c : K} (h : unitCds u = some c) : c ≠ 0 := by
  unfold unitCds at h
  split_ifs at h <;> (cases h; norm_num)

theorem unitFactor_ne_zero {fb : Bool} {u : String} {c : K} (h : unitFactor fb u = some c) : c ≠ 0 := by
  unfold unitFactor at h
  cases hd : (unitDirect u : Option K) with
  | some f => simp only [hd] at h; cases h; exact unitDirect_ne_zero hd
  | none =>
    simp only [hd] at h
    cases fb with
    | false => simp at h
    | true => exact unitCds_ne_zero (by simpa using h)

/-! ### pressure conversions -/

omit [LinearOrder K] [IsStrictOrderedRing K] in
theorem map_div_mul (l : List K) {c : K} (hc : c ≠ 0) : (l.map (fun v => v / c)).map (fun v => v * c) = l := by
  rw [List.map_map]
  conv_rhs => rw [← List.map_id l]
  apply List.map_congr_left
  intro a _
  simp [div_mul_cancel₀ a hc]

/-! ### lists: `range`/`getD`, `argsort`, `gather` -/

theorem range_map_getD {β γ : Type} (l : List β) (d : β) (F : β → γ) :
    (List.range l.length).map (fun k => F (l.getD k d)) = l.map F := by
  apply List.ext_getElem
  · simp
  · intro i h1 h2
    simp only [List.length_map, List.length_range] at h1
    simp [List.getD_eq_getElem?_getD, h1]

theorem getD_mem_of_lt {β : Type} (l : List β) (i : Nat) (d : β) (h : i < l.length) : l.getD i d ∈ l := by
  simp [List.getD_eq_getElem?_getD, h]

theorem range_reverse_map_getD {β γ : Type} (l : List β) (d : β) (F : β → γ) :
    (List.range l.length).reverse.map (fun k => F (l.getD k d)) = (l.map F).reverse := by
  rw [List.map_reverse, range_map_getD]

omit [LinearOrder K] [IsStrictOrderedRing K] in
theorem gather_range (l : List K) : gather l (List.range l.length) = l := by
  unfold gather
  simpa using range_map_getD l 0 id

omit [LinearOrder K] [IsStrictOrderedRing K] in
theorem gather_reverse_range (l : List K) : gather l.reverse (List.range l.length).reverse = l := by
  unfold gather
  have := range_reverse_map_getD l.reverse 0 (id : K → K)
  simpa using this

omit [Field K] [IsStrictOrderedRing K] in
/-- keys already in ascending order: the sorting permutation is the identity -/
theorem argsort_of_sorted (l : List K) (h : l.Pairwise (· ≤ ·)) : argsort l = List.range l.length := by
  unfold argsort
  rw [List.mergeSort_of_pairwise]
  · rw [List.zipIdx_map_snd, List.range_eq_range']
  · have : (List.map Prod.fst l.zipIdx).Pairwise (· ≤ ·) := by rw [List.zipIdx_map_fst]; exact h
    rw [List.pairwise_map] at this
    exact this.imp (by intro a b hab; simpa using hab)

omit [Field K] [IsStrictOrderedRing K] in
/-- keys in strictly descending order: the sorting permutation reverses them -/
theorem argsort_reverse_of_strict (l : List K) (h : l.Pairwise (· < ·)) :
    argsort l.reverse = (List.range l.length).reverse := by
  unfold argsort
  have hz : (l.reverse.zipIdx).mergeSort (fun a b => decide (a.1 ≤ b.1)) = l.reverse.zipIdx.reverse := by
    apply List.Perm.eq_of_pairwise (le := fun a b => decide (a.1 ≤ b.1) = true)
    · intro a b ha hb hab hba
      have ha' : a ∈ l.reverse.zipIdx := (List.mergeSort_perm _ _).mem_iff.mp ha
      have hb' : b ∈ l.reverse.zipIdx := List.mem_reverse.mp hb
      have hkey : a.1 = b.1 := le_antisymm (by simpa using hab) (by simpa using hba)
      obtain ⟨x, i⟩ := a
      obtain ⟨y, j⟩ := b
      obtain ⟨_, hi, hx⟩ := List.mem_zipIdx ha'
      obtain ⟨_, hj, hy⟩ := List.mem_zipIdx hb'
      simp only [Nat.zero_add, Nat.sub_zero] at hi hj hx hy
      simp only at hkey
      have hdec : l.reverse.Pairwise (fun a b => b < a) := List.pairwise_reverse.mpr h
      rw [List.pairwise_iff_getElem] at hdec
      rcases Nat.lt_trichotomy i j with hij | hij | hij
      · have := hdec i j hi hj hij
        rw [← hx, ← hy, hkey] at this
        exact absurd this (lt_irrefl _)
      · subst hij; rw [hkey]
      · have := hdec j i hj hi hij
        rw [← hx, ← hy, hkey] at this
        exact absurd this (lt_irrefl _)
    · apply List.pairwise_mergeSort
      · intro a b c hab hbc
        simp only [decide_eq_true_eq] at *
        exact le_trans hab hbc
      · intro a b
        simp only [Bool.or_eq_true, decide_eq_true_eq]
        exact le_total _ _
    · rw [List.pairwise_reverse]
      have : (List.map Prod.fst l.reverse.zipIdx).Pairwise (fun a b => b ≤ a) := by
        rw [List.zipIdx_map_fst, List.pairwise_reverse]
        exact h.imp le_of_lt
      rw [List.pairwise_map] at this
      exact this.imp (by intro a b hab; simpa using hab)
    · exact (List.mergeSort_perm _ _).trans (List.reverse_perm _).symm
  rw [hz, List.map_reverse, List.zipIdx_map_snd, List.range_eq_range']
  simp

omit [IsStrictOrderedRing K] in
/-- gathering by the sorting permutation yields the keys in sorted order -/
theorem gather_argsort (l : List K) :
    gather l (argsort l) = ((l.zipIdx).mergeSort (fun a b => decide (a.1 ≤ b.1))).map (·.1) := by
  unfold gather argsort
  rw [List.map_map]
  apply List.map_congr_left
  intro a ha
  have ha' : a ∈ l.zipIdx := (List.mergeSort_perm _ _).mem_iff.mp ha
  obtain ⟨x, i⟩ := a
  obtain ⟨_, hi, hx⟩ := List.mem_zipIdx ha'
  simp only [Nat.zero_add, Nat.sub_zero] at hi hx
  simp [List.getD_eq_getElem?_getD, hi, hx]

omit [IsStrictOrderedRing K] in
theorem gather_argsort_sorted (l : List K) : (gather l (argsort l)).Pairwise (· ≤ ·) := by
  rw [gather_argsort, List.pairwise_map]
  have := List.pairwise_mergeSort (le := fun (a b : K × Nat) => decide (a.1 ≤ b.1))
    (by intro a b c hab hbc; simp only [decide_eq_true_eq] at *; exact le_trans hab hbc)
    (by intro a b; simp only [Bool.or_eq_true, decide_eq_true_eq]; exact le_total _ _) l.zipIdx
  exact this.imp (by intro a b hab; simpa using hab)

omit [IsStrictOrderedRing K] in
theorem gather_argsort_perm (l : List K) : (gather l (argsort l)).Perm l := by
  rw [gather_argsort]
  have h1 := (List.mergeSort_perm l.zipIdx (fun a b => decide (a.1 ≤ b.1))).map (·.1)
  rw [List.zipIdx_map_fst] at h1
  exact h1

/-! ### Exo-Transmit -/

/-- a table whose nested lists have the shape its axes announce -/
def XTab.WF {α : Type} (tab : XTab α) : Prop :=
  tab.x.length = tab.p.length ∧
    ∀ row ∈ tab.x, row.length = tab.t.length ∧ ∀ col ∈ row, col.length = tab.wn.length

omit [LinearOrder K] [IsStrictOrderedRing K] in
theorem exoGroupStep_row (r : List K) (acc : List (List K) × List (K × List (List K))) (h : r.length ≠ 1) :
    exoGroupStep r acc = (r :: acc.1, acc.2) := by
  cases r with
  | nil => rfl
  | cons a t =>
    cases t with
    | nil => exact absurd rfl h
    | cons b t' => rfl

omit [LinearOrder K] [IsStrictOrderedRing K] in
theorem exoGroup_rows (rows : List (List K)) (acc : List (List K) × List (K × List (List K)))
    (h : ∀ r ∈ rows, r.length ≠ 1) : rows.foldr exoGroupStep acc = (rows ++ acc.1, acc.2) := by
  induction rows with
  | nil => rfl
  | cons r rows ih =>
    rw [List.foldr_cons, ih (fun x hx => h x (by simp [hx])), exoGroupStep_row _ _ (h r (by simp))]
    rfl

omit [LinearOrder K] [IsStrictOrderedRing K] in
theorem exoGroup_blocks (bs : List (K × List (List K))) (h : ∀ b ∈ bs, ∀ r ∈ b.2, r.length ≠ 1) :
    (bs.flatMap (fun b => [b.1] :: b.2)).foldr exoGroupStep ([], []) = ([], bs) := by
  induction bs with
  | nil => rfl
  | cons b bs ih =>
    rw [List.flatMap_cons, List.cons_append, List.foldr_cons, List.foldr_append,
      ih (fun x hx => h x (by simp [hx])), exoGroup_rows _ _ (h b (by simp))]
    simp [exoGroupStep]

/-- the rows written under the wavelength of wavenumber index `k` -/
def exoRows (tab : XTab K) (k : Nat) : List (List K) :=
  (List.range tab.p.length).map fun i =>
    (tab.p.getD i 0 / 100000) ::
      (List.range tab.t.length).map fun j => (((tab.x.getD i []).getD j []).getD k 0) / 10000

/-- the block written for wavenumber index `k` -/
def exoBlock (tab : XTab K) (k : Nat) : K × List (List K) := (exoWn (tab.wn.getD k 0), exoRows tab k)

omit [LinearOrder K] [IsStrictOrderedRing K] in
theorem encExo_body (tab : XTab K) :
    (encExo tab).body = (((List.range tab.wn.length).reverse).map (exoBlock tab)).flatMap (fun b => [b.1] :: b.2) := by
  rw [List.flatMap_map]
  rfl

omit [LinearOrder K] [IsStrictOrderedRing K] in
theorem exoGroup_encExo (tab : XTab K) (ht : tab.t ≠ []) :
    exoGroup (encExo tab).body = ((List.range tab.wn.length).reverse).map (exoBlock tab) := by
  unfold exoGroup
  rw [encExo_body, exoGroup_blocks]
  intro b hb r hr
  simp only [List.mem_map] at hb
  obtain ⟨k, _, rfl⟩ := hb
  simp only [exoBlock, exoRows, List.mem_map] at hr
  obtain ⟨i, _, rfl⟩ := hr
  have : tab.t.length ≠ 0 := fun h0 => ht (List.length_eq_zero_iff.mp h0)
  simp
  omega

theorem exoWn_exoWn (w : K) : exoWn (exoWn w) = w := by
  unfold exoWn
  have hc : (10000 * (1 / 1000000) : K) ≠ 0 := by norm_num
  rw [div_div_eq_mul_div, mul_comm, mul_div_assoc, div_self hc, mul_one]

omit [LinearOrder K] [IsStrictOrderedRing K] in
theorem exoRows_getD (tab : XTab K) (k i j : Nat) (hi : i < tab.p.length) (hj : j < tab.t.length) :
    ((exoRows tab k).getD i []).getD (j + 1) 0 = (((tab.x.getD i []).getD j []).getD k 0) / 10000 := by
  simp [exoRows, List.getD_eq_getElem?_getD, hi, hj]

/-- what the Exo-Transmit reader makes of a written value: `(v/10000 + tiny) * 10000` -/
def exoShift (tiny : K) (v : K) : K := (v / 10000 + tiny) * 10000

theorem decExo_encExo (tiny : K) (tab : XTab K) (hwf : tab.WF) (ht : tab.t ≠ [])
    (hwn : tab.wn.Pairwise (· < ·)) :
    decExo tiny (encExo tab) =
      { wn := tab.wn, t := tab.t, p := tab.p,
        x := tab.x.map fun row => row.map fun col => col.map (exoShift tiny) } := by
  obtain ⟨hx, hrows⟩ := hwf
  have hB := exoGroup_encExo tab ht
  -- the wavenumbers of the blocks, in file order
  have hwn0 : (exoGroup (encExo tab).body).map (fun b => exoWn b.1) = tab.wn.reverse := by
    rw [hB, List.map_map]
    have : ((fun b : K × List (List K) => exoWn b.1) ∘ exoBlock tab) = fun k => id (tab.wn.getD k 0) := by
      funext k; simp [exoBlock, exoWn_exoWn]
    rw [this, range_reverse_map_getD]
    simp
  have hperm : argsort tab.wn.reverse = (List.range tab.wn.length).reverse := argsort_reverse_of_strict _ hwn
  have hBlen : (exoGroup (encExo tab).body).length = tab.wn.length := by rw [hB]; simp
  unfold decExo
  simp only [hwn0, hperm, gather_reverse_range]
  have hp : (encExo tab).prow.map (fun v => v * 100000) = tab.p := by
    simp only [encExo]
    exact map_div_mul _ (by norm_num)
  have htrow : (encExo tab).trow = tab.t := rfl
  have hplen : (encExo tab).prow.length = tab.p.length := by simp [encExo]
  rw [hp, htrow, hplen]
  congr 1
  -- the table
  rw [← hx, ← range_map_getD tab.x [] (fun row => row.map fun col => col.map (exoShift tiny))]
  apply List.map_congr_left
  intro i hi
  rw [List.mem_range] at hi
  have hrow := hrows (tab.x.getD i []) (getD_mem_of_lt _ _ _ hi)
  rw [← hrow.1, ← range_map_getD (tab.x.getD i []) [] (fun col => col.map (exoShift tiny))]
  apply List.map_congr_left
  intro j hj
  rw [List.mem_range] at hj
  have hcol := hrow.2 ((tab.x.getD i []).getD j []) (getD_mem_of_lt _ _ _ hj)
  -- one column: run through the blocks in sorted order
  have hstep : (List.range tab.wn.length).reverse.map (fun k =>
        ((((exoGroup (encExo tab).body).getD k (0, [])).2.getD i []).getD (j + 1) 0 + tiny) * 10000)
      = ((exoGroup (encExo tab).body).map (fun b => ((b.2.getD i []).getD (j + 1) 0 + tiny) * 10000)).reverse := by
    rw [← hBlen]
    exact range_reverse_map_getD _ (0, []) (fun b => ((b.2.getD i []).getD (j + 1) 0 + tiny) * 10000)
  rw [hstep, hB, List.map_map, List.map_reverse, List.reverse_reverse]
  rw [← hcol, ← range_map_getD ((tab.x.getD i []).getD j []) 0 (exoShift tiny), hcol]
  apply List.map_congr_left
  intro k _
  have hi' : i < tab.p.length := hx ▸ hi
  have hj' : j < tab.t.length := hrow.1 ▸ hj
  simp only [Function.comp, exoBlock, exoRows_getD tab k i j hi' hj', exoShift]

/-! ### HITRAN, one wavenumber range -/

omit [Field K] [IsStrictOrderedRing K] in
theorem eqv_iff (a b : K) : eqv a b = true ↔ a = b := by
  unfold eqv
  rw [Bool.and_eq_true, decide_eq_true_eq, decide_eq_true_eq]
  exact le_antisymm_iff.symm

omit [Field K] [IsStrictOrderedRing K] in
theorem memv_iff (x : K) (l : List K) : memv x l = true ↔ x ∈ l := by
  simp [memv, List.any_eq_true, eqv_iff]

omit [Field K] [IsStrictOrderedRing K] in
theorem keyEq_self (k : K × K) : keyEq k k = true := by
  simp [keyEq, eqv]

theorem clipSigma_enc {s : K} (h : 0 ≤ s) : clipSigma (s / (1 / 10000000000)) = s := by
  unfold clipSigma
  have hc : (1 / 10000000000 : K) ≠ 0 := by norm_num
  simp only [div_mul_cancel₀ s hc, not_lt.mpr h, if_false]

/-- a CIA table whose rows have the shape of its axes and no negative entry -/
def CTab.WF (tab : CTab K) : Prop :=
  tab.x.length = tab.t.length ∧ ∀ row ∈ tab.x, row.length = tab.wn.length ∧ ∀ v ∈ row, 0 ≤ v

/-- the block written for one temperature -/
def hBlock (pair : String) (tab : CTab K) (T : K) (row : List K) : HBlock K :=
  { pair := pair, wn0 := tab.wn.headD 0, wn1 := tab.wn.getLastD 0, temp := T, maxcia := lmax row,
    pts := List.zip tab.wn (row.map (fun s => s / (1 / 10000000000))) }

theorem encHitran_eq (pair : String) (tab : CTab K) :
    encHitran pair tab = List.zipWith (hBlock pair tab) tab.t tab.x := rfl

theorem hBlock_wn (pair : String) (tab : CTab K) (T : K) (row : List K) (h : row.length = tab.wn.length) :
    (hBlock pair tab T row).pts.map (·.1) = tab.wn := by
  simp only [hBlock]
  exact List.map_fst_zip (by simp [h])

theorem hBlock_sigma (pair : String) (tab : CTab K) (T : K) (row : List K) (h : row.length = tab.wn.length)
    (hn : ∀ v ∈ row, 0 ≤ v) : (hBlock pair tab T row).pts.map (fun q => clipSigma q.2) = row := by
  simp only [hBlock]
  have h1 : (List.zip tab.wn (row.map (fun s => s / (1 / 10000000000)))).map (fun q => clipSigma q.2)
      = ((List.zip tab.wn (row.map (fun s => s / (1 / 10000000000)))).map Prod.snd).map clipSigma := by
    rw [List.map_map]; rfl
  rw [h1, List.map_snd_zip (by simp [h]), List.map_map]
  conv_rhs => rw [← List.map_id row]
  apply List.map_congr_left
  intro v hv
  show clipSigma (v / (1 / 10000000000)) = v
  exact clipSigma_enc (hn v hv)

/-- the body of the reading loop -/
def hStep (acc : List K × List (HGrid K)) (b : HBlock K) : List K × List (HGrid K) :=
  (if memv b.temp acc.1 then acc.1 else acc.1 ++ [b.temp],
   upsert acc.2 (b.wn0, b.wn1) (b.pts.map (·.1)) (b.temp, b.pts.map (fun q => clipSigma q.2)))

theorem hLoad_eq (blocks : List (HBlock K)) : hLoad blocks = blocks.foldl hStep ([], []) := rfl

theorem hStep_fold (pair : String) (tab : CTab K) :
    ∀ (ts : List K) (rows : List (List K)) (tl : List K) (ts0 : List (K × List K)),
      (∀ T ∈ ts, T ∉ tl) → ts.Nodup →
      (∀ row ∈ rows, row.length = tab.wn.length ∧ ∀ v ∈ row, 0 ≤ v) →
      (List.zipWith (hBlock pair tab) ts rows).foldl hStep
          (tl, [⟨(tab.wn.headD 0, tab.wn.getLastD 0), tab.wn, ts0⟩])
        = (tl ++ (List.zip ts rows).map (·.1),
           [⟨(tab.wn.headD 0, tab.wn.getLastD 0), tab.wn, ts0 ++ List.zip ts rows⟩])
  | [], _, tl, ts0, _, _, _ => by simp
  | _ :: _, [], tl, ts0, _, _, _ => by simp
  | T :: ts, row :: rows, tl, ts0, hnot, hnd, hrows => by
    have hrow := hrows row (by simp)
    have hT : memv T tl = false := by
      have := hnot T (by simp)
      cases hm : memv T tl
      · rfl
      · exact absurd ((memv_iff T tl).mp hm) this
    rw [List.zipWith_cons_cons, List.foldl_cons]
    have hstep : hStep (tl, [⟨(tab.wn.headD 0, tab.wn.getLastD 0), tab.wn, ts0⟩]) (hBlock pair tab T row)
        = (tl ++ [T], [⟨(tab.wn.headD 0, tab.wn.getLastD 0), tab.wn, ts0 ++ [(T, row)]⟩]) := by
      unfold hStep
      rw [hBlock_wn pair tab T row hrow.1, hBlock_sigma pair tab T row hrow.1 hrow.2]
      simp [hBlock, hT, upsert, keyEq_self]
    rw [hstep]
    rw [List.nodup_cons] at hnd
    rw [hStep_fold pair tab ts rows (tl ++ [T]) (ts0 ++ [(T, row)]) ?_ hnd.2
      (fun r hr => hrows r (by simp [hr]))]
    · simp
    · intro T' hT' hmem
      rw [List.mem_append, List.mem_singleton] at hmem
      rcases hmem with hmem | hmem
      · exact hnot T' (by simp [hT']) hmem
      · subst hmem; exact hnd.1 hT'

theorem hLoad_encHitran (pair : String) (tab : CTab K) (hwf : tab.WF) (ht : tab.t ≠ []) (hnd : tab.t.Nodup) :
    hLoad (encHitran pair tab) =
      (tab.t, [⟨(tab.wn.headD 0, tab.wn.getLastD 0), tab.wn, List.zip tab.t tab.x⟩]) := by
  obtain ⟨hlen, hrows⟩ := hwf
  rw [hLoad_eq, encHitran_eq]
  cases htt : tab.t with
  | nil => exact absurd htt ht
  | cons T ts =>
    cases hxx : tab.x with
    | nil => rw [htt, hxx] at hlen; simp at hlen
    | cons row rows =>
      rw [htt] at hnd
      rw [List.nodup_cons] at hnd
      have hrow := hrows row (by simp [hxx])
      rw [List.zipWith_cons_cons, List.foldl_cons]
      have hstep : hStep (([] : List K), ([] : List (HGrid K))) (hBlock pair tab T row)
          = ([T], [⟨(tab.wn.headD 0, tab.wn.getLastD 0), tab.wn, [(T, row)]⟩]) := by
        unfold hStep
        rw [hBlock_wn pair tab T row hrow.1, hBlock_sigma pair tab T row hrow.1 hrow.2]
        simp [hBlock, memv, upsert]
      rw [hstep, hStep_fold pair tab ts rows [T] [(T, row)] ?_ hnd.2 (fun r hr => hrows r (by simp [hxx, hr]))]
      · have hl : ts.length ≤ rows.length := by
          rw [htt, hxx] at hlen; simp at hlen; omega
        simp [List.map_fst_zip hl]
      · intro T' hT' hmem
        rw [List.mem_singleton] at hmem
        subst hmem; exact hnd.1 hT'

omit [IsStrictOrderedRing K] in
theorem foldl_fillOne_noop (wn : List K) (a b : K) (ts : List (K × List K)) :
    ∀ (temps : List K), (∀ t ∈ temps, t ∈ ts.map (·.1)) → temps.foldl (fillOne wn a b) ts = ts
  | [], _ => rfl
  | t :: temps, h => by
    have ht : memv t (ts.map (·.1)) = true := (memv_iff _ _).mpr (h t (by simp))
    have : fillOne wn a b ts t = ts := by unfold fillOne; simp only [ht, if_true]
    rw [List.foldl_cons, this]
    exact foldl_fillOne_noop wn a b ts temps (fun x hx => h x (by simp [hx]))

theorem decHitran_encHitran (pair : String) (tab : CTab K) (hwf : tab.WF) (ht : tab.t ≠ [])
    (hts : tab.t.Pairwise (· < ·)) (hwn : tab.wn.Pairwise (· ≤ ·)) :
    decHitran (encHitran pair tab) = tab := by
  have hnd : tab.t.Nodup := hts.imp (fun h => ne_of_lt h)
  have hload := hLoad_encHitran pair tab hwf ht hnd
  obtain ⟨hlen, hrows⟩ := hwf
  unfold decHitran
  rw [hload]
  simp only
  -- the master temperature grid is already sorted
  have hsortT : tab.t.mergeSort (fun a b => decide (a ≤ b)) = tab.t :=
    List.mergeSort_of_pairwise (hts.imp (fun h => by simpa using le_of_lt h))
  rw [hsortT]
  -- so is the (T, sigma) list of the single range; every master temperature is present in it
  have hfst : (List.zip tab.t tab.x).map (·.1) = tab.t := List.map_fst_zip (by omega)
  have hsortTs : sortTs (List.zip tab.t tab.x) = List.zip tab.t tab.x := by
    unfold sortTs
    apply List.mergeSort_of_pairwise
    have : ((List.zip tab.t tab.x).map (·.1)).Pairwise (· ≤ ·) := by rw [hfst]; exact hts.imp le_of_lt
    rw [List.pairwise_map] at this
    exact this.imp (by intro a b hab; simpa using hab)
  have hfill : fillGaps tab.t [⟨(tab.wn.headD 0, tab.wn.getLastD 0), tab.wn, List.zip tab.t tab.x⟩]
      = [⟨(tab.wn.headD 0, tab.wn.getLastD 0), tab.wn, List.zip tab.t tab.x⟩] := by
    simp only [fillGaps, List.map_cons, List.map_nil, hsortTs, fillTemperature]
    rw [foldl_fillOne_noop _ _ _ _ tab.t (by intro t ht'; rw [hfst]; exact ht')]
  rw [hfill]
  unfold finalGrid
  simp only [List.flatMap_singleton]
  rw [argsort_of_sorted tab.wn hwn, gather_range]
  have hzl : (List.zip tab.t tab.x).length = tab.t.length := by simp [List.length_zip]; omega
  have hx : (List.range tab.t.length).map (fun idx =>
        gather ((List.zip tab.t tab.x).getD idx (0, [])).2 (List.range tab.wn.length)) = tab.x := by
    rw [← hzl, range_map_getD (List.zip tab.t tab.x) (0, []) (fun e => gather e.2 (List.range tab.wn.length))]
    have : (List.zip tab.t tab.x).map (fun e => gather e.2 (List.range tab.wn.length))
        = (List.zip tab.t tab.x).map Prod.snd := by
      apply List.map_congr_left
      intro e he
      obtain ⟨a, row⟩ := e
      have hr := (hrows row (List.of_mem_zip he).2).1
      simp only
      rw [← hr, gather_range]
    rw [this, List.map_snd_zip (by omega)]
  rw [hx]

/-! ### HITRAN, any number of ranges: nothing negative reaches the unified table -/

/-- all cross-sections of a `Tsigma` list are non-negative -/
def NonnegTs (ts : List (K × List K)) : Prop := ∀ e ∈ ts, ∀ v ∈ e.2, 0 ≤ v

theorem interpLin_nonneg {u v t a b : K} (hu : 0 ≤ u) (hv : 0 ≤ v) (h1 : a ≤ t) (h2 : t ≤ b) :
    0 ≤ Interp.interpLin u v t a b := by
  unfold Interp.interpLin
  have hd : 0 ≤ b - a := by linarith
  have hs0 : 0 ≤ (t - a) / (b - a) := div_nonneg (by linarith) hd
  have hs1 : (t - a) / (b - a) ≤ 1 := div_le_one_of_le₀ (by linarith) hd
  have e : u - (t - a) / (b - a) * (u - v) = (1 - (t - a) / (b - a)) * u + (t - a) / (b - a) * v := by ring
  rw [e]
  have := mul_nonneg (sub_nonneg.mpr hs1) hu
  have := mul_nonneg hs0 hv
  linarith

theorem forall_zipWith {β γ δ : Type} (f : β → γ → δ) (R : δ → Prop) :
    ∀ (l1 : List β) (l2 : List γ), (∀ x ∈ l1, ∀ y ∈ l2, R (f x y)) → ∀ v ∈ List.zipWith f l1 l2, R v
  | [], _, _, v, hv => by simp at hv
  | _ :: _, [], _, v, hv => by simp at hv
  | x :: l1, y :: l2, h, v, hv => by
    rw [List.zipWith_cons_cons, List.mem_cons] at hv
    rcases hv with rfl | hv
    · exact h x (by simp) y (by simp)
    · exact forall_zipWith f R l1 l2 (fun a ha b hb => h a (by simp [ha]) b (by simp [hb])) v hv

omit [Field K] [IsStrictOrderedRing K] in
/-- on a sorted list `searchsorted(side='right')` splits exactly at `t` -/
theorem lt_countP_iff_le (t : K) :
    ∀ (l : List K), l.Pairwise (· ≤ ·) → ∀ (i : Nat) (h : i < l.length),
      (i < l.countP (fun a => decide (a ≤ t)) ↔ l[i] ≤ t)
  | [], _, i, h => by simp at h
  | x :: xs, hp, i, h => by
    rw [List.pairwise_cons] at hp
    by_cases hx : x ≤ t
    · rw [List.countP_cons]
      simp only [hx, decide_true, if_true]
      cases i with
      | zero => simp [hx]
      | succ j =>
        have := lt_countP_iff_le t xs hp.2 j (by simpa using h)
        simp only [List.getElem_cons_succ]
        rw [Nat.succ_lt_succ_iff]
        exact this
    · have hall : ∀ a ∈ xs, ¬ a ≤ t := fun a ha hat => hx (le_trans (hp.1 a ha) hat)
      have hc : (x :: xs).countP (fun a => decide (a ≤ t)) = 0 := by
        rw [List.countP_eq_zero]
        intro a ha
        rw [List.mem_cons] at ha
        rcases ha with rfl | ha
        · simpa using hx
        · simpa using hall a ha
      rw [hc]
      constructor
      · intro h0; omega
      · intro hle
        exfalso
        have hm : (x :: xs)[i] ∈ x :: xs := List.getElem_mem h
        rw [List.mem_cons] at hm
        rcases hm with hm | hm
        · rw [hm] at hle; exact hx hle
        · exact hall _ hm hle

omit [Field K] [IsStrictOrderedRing K] in
theorem foldl_pick_mem (f : K → K → K) (hf : ∀ a b, f a b = a ∨ f a b = b) :
    ∀ (l : List K) (a : K), l.foldl f a = a ∨ l.foldl f a ∈ l
  | [], a => Or.inl rfl
  | x :: xs, a => by
    rw [List.foldl_cons]
    rcases foldl_pick_mem f hf xs (f a x) with h | h
    · rcases hf a x with h' | h'
      · left; rw [h, h']
      · right; rw [h, h']; simp
    · right; simp [h]

theorem lmin_mem (l : List K) (h : l ≠ []) : lmin l ∈ l := by
  cases l with
  | nil => exact absurd rfl h
  | cons x xs =>
    unfold lmin
    rcases foldl_pick_mem (fun a b => if b < a then b else a)
      (by intro a b; by_cases hh : b < a <;> simp [hh]) (x :: xs) ((x :: xs).headD 0) with h1 | h1
    · rw [h1]; simp
    · exact h1

omit [Field K] [IsStrictOrderedRing K] in
theorem sortTs_perm (ts : List (K × List K)) : (sortTs ts).Perm ts := List.mergeSort_perm _ _

omit [Field K] [IsStrictOrderedRing K] in
theorem sortTs_sorted (ts : List (K × List K)) : (sortTs ts).Pairwise (fun a b => a.1 ≤ b.1) := by
  have := List.pairwise_mergeSort (le := fun (a b : K × List K) => decide (a.1 ≤ b.1))
    (by intro a b c hab hbc; simp only [decide_eq_true_eq] at *; exact le_trans hab hbc)
    (by intro a b; simp only [Bool.or_eq_true, decide_eq_true_eq]; exact le_total _ _) ts
  exact this.imp (by intro a b hab; simpa using hab)

/-- what the loop of `fill_temperature` keeps true -/
def FillInv (tmin : K) (ts : List (K × List K)) : Prop :=
  ts.Pairwise (fun a b => a.1 ≤ b.1) ∧ NonnegTs ts ∧ tmin ∈ ts.map (·.1)

theorem fillInv_sort_append (tmin : K) (ts : List (K × List K)) (e : K × List K) (h : FillInv tmin ts)
    (he : ∀ v ∈ e.2, 0 ≤ v) : FillInv tmin (sortTs (ts ++ [e])) := by
  obtain ⟨_, hn, hm⟩ := h
  have hp := sortTs_perm (ts ++ [e])
  refine ⟨sortTs_sorted _, ?_, ?_⟩
  · intro x hx
    have hx' := hp.mem_iff.mp hx
    rw [List.mem_append, List.mem_singleton] at hx'
    rcases hx' with hx' | rfl
    · exact hn x hx'
    · exact he
  · rw [List.mem_map] at hm ⊢
    obtain ⟨x, hx, hx1⟩ := hm
    exact ⟨x, hp.mem_iff.mpr (by simp [hx]), hx1⟩

theorem fillOne_inv (wn : List K) (tmin tmax : K) (ts : List (K × List K)) (t : K) (h : FillInv tmin ts) :
    FillInv tmin (fillOne wn tmin tmax ts t) := by
  unfold fillOne
  simp only
  by_cases hmem : memv t (ts.map (·.1)) = true
  · simp only [hmem, if_true]; exact h
  · simp only [hmem, Bool.false_eq_true, if_false]
    by_cases hout : (decide (t < tmin) || decide (tmax < t)) = true
    · simp only [hout, if_true]
      apply fillInv_sort_append tmin ts _ h
      intro v hv
      simp only [List.mem_map] at hv
      obtain ⟨_, _, rfl⟩ := hv
      exact le_refl 0
    · simp only [hout, Bool.false_eq_true, if_false]
      apply fillInv_sort_append tmin ts _ h
      -- the interpolated row
      have hge : tmin ≤ t := by
        simp only [Bool.or_eq_true, decide_eq_true_eq, not_or, not_lt] at hout
        exact hout.1
      obtain ⟨hsorted, hnn, hminmem⟩ := h
      have hsortedT : (ts.map (·.1)).Pairwise (· ≤ ·) := by rw [List.pairwise_map]; exact hsorted
      -- some stored temperature is ≤ t, so the count is positive
      obtain ⟨j, hj, hjv⟩ := List.mem_iff_getElem.mp hminmem
      have hcpos : j < (ts.map (·.1)).countP (fun a => decide (a ≤ t)) :=
        (lt_countP_iff_le t _ hsortedT j hj).mpr (by rw [hjv]; exact hge)
      show ∀ v ∈ List.zipWith _ _ _, 0 ≤ v
      unfold Interp.searchRight
      generalize hc : (ts.map (·.1)).countP (fun a => decide (a ≤ t)) = c at hcpos
      by_cases hin : c < ts.length
      · have hi : c - 1 < ts.length := by omega
        have hi1 : c - 1 + 1 = c := by omega
        rw [hi1]
        have ea : ts.getD (c - 1) (0, []) = ts[c - 1] := by simp [List.getD_eq_getElem?_getD, hi]
        have eb : ts.getD c (0, []) = ts[c] := by simp [List.getD_eq_getElem?_getD, hin]
        rw [ea, eb]
        have hlen : (ts.map (·.1)).length = ts.length := by simp
        have hle : ts[c - 1].1 ≤ t := by
          have := (lt_countP_iff_le t _ hsortedT (c - 1) (by omega)).mp (by rw [hc]; omega)
          simpa using this
        have hgt : t ≤ ts[c].1 := by
          have := (lt_countP_iff_le t _ hsortedT c (by omega))
          rw [hc] at this
          have hnot : ¬ (ts.map (·.1))[c] ≤ t := fun hh => (lt_irrefl c) (this.mpr hh)
          have : ¬ ts[c].1 ≤ t := by simpa using hnot
          exact le_of_lt (not_le.mp this)
        apply forall_zipWith
        intro x hx y hy
        exact interpLin_nonneg (hnn _ (List.getElem_mem hi) x hx) (hnn _ (List.getElem_mem hin) y hy) hle hgt
      · have hi1 : c - 1 + 1 = c := by omega
        rw [hi1]
        have eb : ts.getD c (0, []) = (0, []) := by
          simp [List.getD_eq_getElem?_getD, List.getElem?_eq_none (Nat.le_of_not_lt hin)]
        rw [eb]
        intro v hv
        simp at hv

theorem fillTemperature_nonneg (wn : List K) (ts : List (K × List K)) (temps : List K) (hne : ts ≠ [])
    (hn : NonnegTs ts) : NonnegTs (fillTemperature wn (sortTs ts) temps) := by
  unfold fillTemperature
  simp only
  have hne' : (sortTs ts).map (·.1) ≠ [] := by
    intro h0
    have := (sortTs_perm ts).length_eq
    rw [List.map_eq_nil_iff] at h0
    rw [h0] at this
    exact hne (List.length_eq_zero_iff.mp this.symm)
  have h0 : FillInv (lmin ((sortTs ts).map (·.1))) (sortTs ts) :=
    ⟨sortTs_sorted ts, fun e he => hn e ((sortTs_perm ts).mem_iff.mp he), lmin_mem _ hne'⟩
  have : ∀ (l : List K) (acc : List (K × List K)), FillInv (lmin ((sortTs ts).map (·.1))) acc →
      FillInv (lmin ((sortTs ts).map (·.1)))
        (l.foldl (fillOne wn (lmin ((sortTs ts).map (·.1))) (lmax ((sortTs ts).map (·.1)))) acc) := by
    intro l
    induction l with
    | nil => intro acc h; exact h
    | cons t l ih => intro acc h; exact ih _ (fillOne_inv wn _ _ acc t h)
  exact (this temps _ h0).2.1

/-- what the reading loop keeps true of every grid -/
def GridsOk (grids : List (HGrid K)) : Prop := ∀ g ∈ grids, g.ts ≠ [] ∧ NonnegTs g.ts

theorem upsert_ok (grids : List (HGrid K)) (key : K × K) (wn : List K) (e : K × List K) (h : GridsOk grids)
    (he : ∀ v ∈ e.2, 0 ≤ v) : GridsOk (upsert grids key wn e) := by
  unfold upsert
  split_ifs
  · intro g hg
    rw [List.mem_map] at hg
    obtain ⟨g0, hg0, rfl⟩ := hg
    obtain ⟨h1, h2⟩ := h g0 hg0
    split_ifs
    · refine ⟨by simp, ?_⟩
      intro x hx
      rw [List.mem_append, List.mem_singleton] at hx
      rcases hx with hx | rfl
      · exact h2 x hx
      · exact he
    · exact ⟨h1, h2⟩
  · intro g hg
    rw [List.mem_append, List.mem_singleton] at hg
    rcases hg with hg | rfl
    · exact h g hg
    · refine ⟨by simp, ?_⟩
      intro x hx
      rw [List.mem_singleton] at hx
      subst hx; exact he

theorem clipSigma_nonneg (s : K) : 0 ≤ clipSigma s := by
  unfold clipSigma
  simp only
  split_ifs with h
  · exact le_refl 0
  · exact not_lt.mp h

theorem hLoad_ok (blocks : List (HBlock K)) : GridsOk (hLoad blocks).2 := by
  rw [hLoad_eq]
  have : ∀ (bs : List (HBlock K)) (acc : List K × List (HGrid K)), GridsOk acc.2 → GridsOk (bs.foldl hStep acc).2 := by
    intro bs
    induction bs with
    | nil => intro acc h; exact h
    | cons b bs ih =>
      intro acc h
      apply ih
      apply upsert_ok _ _ _ _ h
      intro v hv
      simp only [List.mem_map] at hv
      obtain ⟨q, _, rfl⟩ := hv
      exact clipSigma_nonneg _
  exact this blocks _ (by intro g hg; simp at hg)

theorem getD_mem_or_default {β : Type} (l : List β) (i : Nat) (d : β) : l.getD i d ∈ l ∨ l.getD i d = d := by
  by_cases h : i < l.length
  · left; exact getD_mem_of_lt l i d h
  · right; simp [List.getD_eq_getElem?_getD, List.getElem?_eq_none (Nat.le_of_not_lt h)]

theorem decHitran_eq (blocks : List (HBlock K)) :
    decHitran blocks =
      finalGrid ((hLoad blocks).1.mergeSort (fun a b => decide (a ≤ b)))
        (fillGaps ((hLoad blocks).1.mergeSort (fun a b => decide (a ≤ b))) (hLoad blocks).2) := by
  unfold decHitran
  rfl

theorem decHitran_nonneg (blocks : List (HBlock K)) : ∀ row ∈ (decHitran blocks).x, ∀ v ∈ row, 0 ≤ v := by
  rw [decHitran_eq]
  generalize (hLoad blocks).1.mergeSort (fun a b => decide (a ≤ b)) = temps
  have hok := hLoad_ok blocks
  have hfilled : ∀ g ∈ fillGaps temps (hLoad blocks).2, NonnegTs g.ts := by
    intro g hg
    simp only [fillGaps, List.mem_map] at hg
    obtain ⟨g0, hg0, rfl⟩ := hg
    exact fillTemperature_nonneg g0.wn g0.ts temps (hok g0 hg0).1 (hok g0 hg0).2
  intro row hrow v hv
  simp only [finalGrid, List.mem_map, List.mem_range] at hrow
  obtain ⟨idx, _, rfl⟩ := hrow
  simp only [gather, List.mem_map] at hv
  obtain ⟨i, _, rfl⟩ := hv
  rcases getD_mem_or_default ((fillGaps temps (hLoad blocks).2).flatMap fun g => (g.ts.getD idx (0, [])).2) i 0
    with h | h
  · rw [List.mem_flatMap] at h
    obtain ⟨g, hg, hvg⟩ := h
    rcases getD_mem_or_default g.ts idx (0, []) with h2 | h2
    · exact hfilled g hg _ h2 _ hvg
    · rw [h2] at hvg; simp at hvg
  · rw [h]

end Taurex.Loaders
