/-
  Geometry of the spherical shells and the licensed band of the early exit (helper file of Props/C01).
-/
import Proofs.C01b

open Finset

namespace Taurex.Transmission

/-- the altitude grid the forward model builds (`calculate_scale_properties`): `z = zb[:-1]`,
    `zb[l+1] = zb[l] + dz[l]`, non-negative layer thickness, the surface not below the centre -/
structure Shells (rp : ℝ) (n : ℕ) (zb z dz : ℕ → ℝ) : Prop where
  base : 0 ≤ rp + zb 0
  hz : ∀ l < n, z l = zb l
  step : ∀ l < n, zb (l + 1) = zb l + dz l
  thick : ∀ l < n, 0 ≤ dz l

namespace Shells
variable {rp : ℝ} {n : ℕ} {zb z dz : ℕ → ℝ}

theorem zb_mono (S : Shells rp n zb z dz) : ∀ i j, i ≤ j → j ≤ n → zb i ≤ zb j := by
  intro i j hij hj
  induction j with
  | zero => have : i = 0 := by omega
            subst this; exact le_refl _
  | succ j ih =>
    rcases Nat.eq_or_lt_of_le hij with h | h
    · subst h; exact le_refl _
    · have h1 := ih (by omega) (by omega)
      have h2 := S.step j (by omega)
      have h3 := S.thick j (by omega)
      linarith

theorem radius_nonneg (S : Shells rp n zb z dz) (i : ℕ) (hi : i ≤ n) : 0 ≤ rp + zb i := by
  have := S.zb_mono 0 i (Nat.zero_le _) hi
  have := S.base
  linarith

theorem z_radius_nonneg (S : Shells rp n zb z dz) (l : ℕ) (hl : l < n) : 0 ≤ rp + z l := by
  rw [S.hz l hl]; exact S.radius_nonneg l hl.le

end Shells

theorem oldMid_step {rp : ℝ} {n : ℕ} {zb z dz : ℕ → ℝ} (S : Shells rp n zb z dz) (j : ℕ) (hj : j + 1 < n) :
    oldMid rp z dz j ≤ oldMid rp z dz (j + 1) := by
  unfold oldMid
  have h1 := S.hz j (by omega); have h2 := S.hz (j + 1) hj
  have h3 := S.step j (by omega)
  have h4 := S.thick j (by omega); have h5 := S.thick (j + 1) hj
  rw [h1, h2, h3]; linarith

theorem oldMid_nonneg {rp : ℝ} {n : ℕ} {zb z dz : ℕ → ℝ} (S : Shells rp n zb z dz) (j : ℕ) (hj : j < n) :
    0 ≤ oldMid rp z dz j := by
  unfold oldMid
  have h0 : 0 < n := by omega
  have := S.z_radius_nonneg j hj; have := S.thick 0 h0; have := S.thick j hj
  linarith

/-! ### licensed band -/

theorem trans_le_one (t : ℝ) (h : 0 ≤ t) : trans t ≤ 1 := by
  unfold trans; simp only [exp_real]; exact Real.exp_le_one_iff.2 (by linarith)

theorem trans_pos (t : ℝ) : 0 < trans t := by
  unfold trans; simp only [exp_real]; exact Real.exp_pos _

theorem trans_anti {a b : ℝ} (h : a ≤ b) : trans b ≤ trans a := by
  unfold trans; simp only [exp_real]; exact Real.exp_le_exp.2 (by linarith)

theorem trans_lt_of_gt {a : ℝ} (h : 10 < a) : trans a < trans 10 := by
  unfold trans; simp only [exp_real]; exact Real.exp_lt_exp.2 (by linarith)

/-- per row: the transmittance with the early exit is never below the one of the full sum, and exceeds it by
    less than `exp(-10)` -/
theorem trans_cut_band (n nwn : ℕ) (path dens : ℕ → ℝ) (l : ℕ) (hp : ∀ k < n - l, 0 ≤ path k)
    (hd : ∀ j < n, 0 ≤ dens j) (cs : List (Contrib ℝ)) (hcs : ∀ c ∈ cs, c.Nonneg) (wn : ℕ) (hwn : wn < nwn) :
    trans (tauFull n path dens l cs wn) ≤ trans (tauCut n nwn path dens l cs wn) ∧
    trans (tauCut n nwn path dens l cs wn) - trans (tauFull n path dens l cs wn) ≤ trans 10 := by
  obtain ⟨hle, hor⟩ := cutoff_from n nwn path dens l hp hd cs hcs (fun _ => 0)
  refine ⟨trans_anti (hle wn), ?_⟩
  rcases hor with h | h
  · have : tauCut n nwn path dens l cs wn = tauFull n path dens l cs wn := h wn
    rw [this]; have := trans_pos (10 : ℝ); linarith
  · have h1 := trans_lt_of_gt (h wn hwn)
    have h2 := trans_pos (tauFull n path dens l cs wn)
    unfold tauCut; linarith

theorem depth_sub (rp rs : ℝ) (n : ℕ) (z dz tr tr' : ℕ → ℝ) :
    depth rp rs n z dz tr' - depth rp rs n z dz tr
      = (∑ l ∈ range n, 2 * (rp + z l) * (tr l - tr' l) * dz l) / rs ^ 2 := by
  rw [depth_eq, depth_eq, ← sub_div]
  congr 1
  rw [add_sub_add_left_eq_sub, ← Finset.sum_sub_distrib]
  exact Finset.sum_congr rfl (fun l _ => by ring)

/-- if `tr - tr'` lies in `[0, e]` in every layer, the depths differ by at most `e` times the opaque annulus -/
theorem depth_band (rp rs : ℝ) (hrs : 0 < rs) (n : ℕ) (z dz tr tr' : ℕ → ℝ) (e : ℝ)
    (hz : ∀ l < n, 0 ≤ rp + z l) (hdz : ∀ l < n, 0 ≤ dz l)
    (h0 : ∀ l < n, tr' l ≤ tr l) (h1 : ∀ l < n, tr l - tr' l ≤ e) :
    0 ≤ depth rp rs n z dz tr' - depth rp rs n z dz tr ∧
    depth rp rs n z dz tr' - depth rp rs n z dz tr ≤ e * (∑ l ∈ range n, 2 * (rp + z l) * dz l) / rs ^ 2 := by
  have hrs2 : 0 < rs ^ 2 := by positivity
  rw [depth_sub]
  constructor
  · apply div_nonneg _ hrs2.le
    apply Finset.sum_nonneg
    intro l hl
    have hl := mem_range.1 hl
    have := hz l hl; have := hdz l hl; have := h0 l hl
    have : 0 ≤ tr l - tr' l := by linarith
    positivity
  · apply div_le_div_of_nonneg_right _ hrs2.le
    rw [Finset.mul_sum]
    apply Finset.sum_le_sum
    intro l hl
    have hl := mem_range.1 hl
    have a1 := hz l hl; have a2 := hdz l hl; have a3 := h1 l hl
    have : 0 ≤ 2 * (rp + z l) * dz l := by positivity
    nlinarith

/-- hypotheses on one atmosphere + contribution list, as the model-level theorems need them
    (`path_nonneg` follows from `shells` for both chord methods: `C01.wellFormed_of_shells`) -/
structure WellFormed (newMethod : Bool) (rp rs : ℝ) (n : ℕ) (zb z dz dens : ℕ → ℝ) (cs : List (Contrib ℝ)) : Prop where
  rs_pos : 0 < rs
  shells : Shells rp n zb z dz
  path_nonneg : ∀ l < n, ∀ k < n - l, 0 ≤ chord newMethod rp zb z dz l k
  dens_nonneg : ∀ j < n, 0 ≤ dens j
  sigma_nonneg : ∀ c ∈ cs, c.Nonneg

end Taurex.Transmission
