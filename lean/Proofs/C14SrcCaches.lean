/-
  Helper lemmas for the k-table cache and CIA cache ties of Props/C14Src.lean (taurex/cache/ktablecache.py,
  taurex/cache/ciaacache.py against `CacheSM.stepK` / `CiaSM.step`): loops whose body may raise (`Py.forE`) against the model's
  folds, and how a state of `CiaSM` is laid out as the Python objects.  Core only.
-/
import Proofs.C14SrcLemmas
set_option linter.unusedSectionVars false

namespace Taurex.C14Src
open Taurex.CacheSM Taurex.Gen

/-- a loop whose body may raise but does not, on states that encode a model state satisfying an invariant -/
theorem forE_sim {β σ τ : Type} (enc : τ → σ) (g : τ → β → τ) (Inv : τ → Prop)
    (F : σ → β → σ × Option Py.Err)
    (hInv : ∀ t x, Inv t → Inv (g t x))
    (hF : ∀ t x, Inv t → F (enc t) x = (enc (g t x), none)) :
    ∀ (l : List β) (t : τ), Inv t → Py.forE l (enc t) F = (enc (l.foldl g t), none) := by
  intro l
  induction l with
  | nil => intro t _; rfl
  | cons x l ih =>
    intro t h
    rw [Py.forE_cons, hF t x h]
    exact ih _ (hInv t x h)

theorem memOrTrue_eq (b : Option Bool) : memOrTrue b = true := by
  cases b with
  | none => rfl
  | some v => cases v <;> rfl

/-- `c.discover()` of a k-table class: reads `GlobalCache()['ktable_path']` and the interpolation setting; never raises -/
def discoverK (fs : List Dir) (w : World) (path : Option Nat) (interp : Option Nat) (c : Fmt) :
    Except Py.Err (List (String × Args)) := .ok (discoverM fs w path interp none c)

theorem loadStepK_same (m : String) (s s0 : CSt) (e : FileEntry) (h : Same s s0) : Same (loadStepK m s e) s0 := by
  unfold loadStepK
  split
  · simp only []
    split
    · exact addOpacity_same _ _ _ _ h
    · exact h
  · exact h

theorem foldl_loadStepK_same (m : String) (fl : List FileEntry) :
    ∀ (s s0 : CSt), Same s s0 → Same (fl.foldl (loadStepK m) s) s0 := by
  induction fl with
  | nil => intro s s0 h; exact h
  | cons e fl ih => intro s s0 h; exact ih _ _ (loadStepK_same m s s0 e h)

/-- the inner loop (`for mol, args in c.discover()`) over the files of one k-table class -/
theorem inner_loopK (m : String) (s : CSt) (G : List (String × Obj) × World → String × Args → List (String × Obj) × World)
    (hG : ∀ (s' : CSt) (e : FileEntry), Same s' s → G (encS s') (argsOf s e) = encS (loadStepK m s' e)) :
    ∀ (fl : List FileEntry) (s' : CSt), Same s' s →
      List.foldl G (encS s') (fl.map (argsOf s)) = encS (fl.foldl (loadStepK m) s') := by
  intro fl
  induction fl with
  | nil => intro s' _; rfl
  | cons e fl ih =>
    intro s' h
    simp only [List.map_cons, List.foldl_cons, hG s' e h]
    exact ih _ (loadStepK_same m s' s e h)

theorem foldl_flatMap {β γ τ : Type} (g : τ → γ → τ) (f : β → List γ) (l : List β) (t : τ) :
    (l.flatMap f).foldl g t = l.foldl (fun t c => (f c).foldl g t) t := by
  induction l generalizing t with
  | nil => rfl
  | cons c l ih => simp [List.flatMap_cons, List.foldl_append, ih]

end Taurex.C14Src

/-! ### the CIA cache -/

namespace Taurex.C14Src
open Taurex.CiaSM Taurex.Gen


/-- a loop whose body may raise `err` (and nothing else), on states that encode a model state -/
theorem forE_simB {β σ τ : Type} (enc : τ → σ) (g : τ → β → τ × Bool) (err : Py.Err)
    (F : σ → β → σ × Option Py.Err) (l : List β)
    (hF : ∀ t x, x ∈ l → F (enc t) x = (enc (g t x).1, if (g t x).2 then some err else none)) :
    ∀ t, Py.forE l (enc t) F = (enc (forB g t l).1, if (forB g t l).2 then some err else none) := by
  induction l with
  | nil => intro t; rfl
  | cons x l ih =>
    intro t
    rw [Py.forE_cons, hF t x (by simp)]
    unfold forB
    rcases hg : g t x with ⟨t', b⟩
    cases b with
    | true => rfl
    | false => exact ih (fun t x hx => hF t x (by simp [hx])) t'

abbrev CWorld := List (String × Nat) × Nat

/-- the Python-side state of the CIA cache a loading loop carries: `cia_dict` and the world -/
def encC (s : St) : List (String × CObj) × CWorld := (s.dict, (s.log, s.nextId))

/-- `glob(os.path.join(path, pattern))` -/
def globC (fs : List CDir) (_w : CWorld) (g : CPath × String) : List CFile :=
  match g.1 with
  | .single p => if g.2 = "*.db" then dirFiles fs p .db else dirFiles fs p .cia
  | .many _ => []

/-- `PickleCIA(file, pairname)`: logged, next identity, named as told -/
def constructP (w : CWorld) (_k : Unit) (f : CFile) (pn : String) : CWorld × CObj :=
  ((w.1 ++ [(pn, f.fileId)], w.2 + 1), { id := w.2, pair := pn, src := some f.fileId })

/-- `HitranCIA(file)`: logged under the name its file name advertises, named by its content -/
def constructH (w : CWorld) (_k : Unit) (f : CFile) : CWorld × CObj :=
  ((w.1 ++ [(f.disc, f.fileId)], w.2 + 1), { id := w.2, pair := f.obj, src := some f.fileId })

def isStr : CPath → Bool
  | .single _ => true
  | .many _ => false

def isList : CPath → Bool
  | .single _ => false
  | .many _ => true

def pathItems : CPath → List CPath
  | .single _ => []
  | .many ps => ps.map .single

theorem chasKey_eq_dhas (d : List (String × CObj)) (m : String) : CiaSM.hasKey d m = Py.dhas d m := by
  unfold CiaSM.hasKey Py.dhas
  congr 1

theorem clookup_eq_dget (d : List (String × CObj)) (m : String) : CiaSM.lookup d m = Py.dget d m := by
  induction d with
  | nil => rfl
  | cons kv d ih =>
    obtain ⟨k, v⟩ := kv
    by_cases h : k = m
    · simp [CiaSM.lookup, Py.dget, List.find?, h]
    · simp only [CiaSM.lookup, List.find?, Py.dget, h, if_false] at ih ⊢
      have : (k == m) = false := by simpa using h
      simp only [this]
      exact ih

theorem dhas_eq_isSome' {β : Type} (d : List (String × β)) (m : String) : Py.dhas d m = (Py.dget d m).isSome := by
  induction d with
  | nil => rfl
  | cons kv d ih =>
    obtain ⟨k, v⟩ := kv
    by_cases h : k = m
    · simp [Py.dhas, Py.dget, h]
    · have : Py.dhas ((k, v) :: d) m = Py.dhas d m := by simp [Py.dhas, h]
      rw [this, ih]; simp [Py.dget, h]

theorem dset_new {β : Type} (d : List (String × β)) (n : String) (v : β) (h : Py.dhas d n = false) :
    Py.dset d n v = d ++ [(n, v)] := by
  induction d with
  | nil => rfl
  | cons kv d ih =>
    obtain ⟨k, w⟩ := kv
    by_cases hk : k = n
    · simp [Py.dhas, hk] at h
    · have h' : Py.dhas d n = false := by simpa [Py.dhas, hk] using h
      simp [Py.dset, hk, ih h']

theorem dset_dset {β : Type} (d : List (String × β)) (n : String) (v : β) : Py.dset (Py.dset d n v) n v = Py.dset d n v := by
  induction d with
  | nil => simp [Py.dset]
  | cons kv d ih =>
    obtain ⟨k, w⟩ := kv
    by_cases hk : k = n
    · simp [Py.dset, hk]
    · simp [Py.dset, hk, ih]

/-- how `add_cia` reports: `Exception` or nothing -/
def excB (b : Bool) : Except Py.Err Unit := if b then .error .exception else .ok ()

theorem addCia_frame (s : St) (o : CObj) :
    (addCia s o).1 = { s with dict := (addCia s o).1.dict } := by
  unfold addCia
  split <;> rfl

theorem forB_map {σ β γ : Type} (f : γ → β) (g : σ → β → σ × Bool) (l : List γ) (t : σ) :
    forB g t (l.map f) = forB (fun t x => g t (f x)) t l := by
  induction l generalizing t with
  | nil => rfl
  | cons x l ih =>
    simp only [List.map_cons, forB]
    rcases g t (f x) with ⟨t', b⟩
    cases b with
    | true => rfl
    | false => exact ih t'

/-- how a response of the CIA model reads as the outcome of `__getitem__` -/
def respC : Resp → Except Py.Err CObj
  | .served o => .ok o
  | _ => .error .exception

end Taurex.C14Src
