/-
  Helper lemmas for the C02 theorems (emission integral), over the real carrier.
-/
import Proofs.RealInst
import TaurexModel.Emission
import Mathlib.Tactic.Ring
import Mathlib.Tactic.Linarith
import Mathlib.Tactic.Positivity
import Mathlib.Tactic.FieldSimp

namespace Taurex.Emission

theorem foldl_add_sum {β : Type} (f : β → ℝ) (l : List β) (acc : ℝ) :
    l.foldl (fun a x => a + f x) acc = acc + (l.map f).sum := by
  induction l generalizing acc with
  | nil => simp
  | cons x xs ih => simp [List.foldl_cons, ih, add_assoc]

/-- coefficient of `B(T_l)/π` contributed by one layer -/
noncomputable def coeff (m : ℝ) (r : Row ℝ) : ℝ := trans r.keepL r.lt m - trans r.keepD r.dt m

theorem intensityRows_eq (b0 surf m : ℝ) (rows : List (Row ℝ)) :
    intensityRows b0 surf m rows
      = b0 * Real.exp ((-surf) * m) + (rows.map (fun r => r.b * coeff m r)).sum := by
  unfold intensityRows coeff
  rw [foldl_add_sum]
  rfl

theorem trans_true (t m : ℝ) : trans true t m = Real.exp ((-t) * m) := by simp [trans]
theorem trans_false (t m : ℝ) : trans false t m = 0 := by simp [trans]

theorem trans_nonneg (k : Bool) (t m : ℝ) : 0 ≤ trans k t m := by
  cases k <;> simp [trans, Real.exp_nonneg]

theorem trans_le_exp (k : Bool) (t m : ℝ) : trans k t m ≤ Real.exp ((-t) * m) := by
  cases k <;> simp [trans, Real.exp_nonneg]

/-- the layer coefficients telescope along a chain -/
theorem coeff_sum_chain (m : ℝ) (rows : List (Row ℝ)) (t : ℝ) (k : Bool) (h : Chain t k rows) :
    (rows.map (coeff m)).sum = 1 - trans k t m := by
  induction rows generalizing t k with
  | nil =>
    obtain ⟨ht, hk⟩ := h
    subst ht; subst hk
    simp [trans]
  | cons r rs ih =>
    obtain ⟨hd, hk, hc⟩ := h
    have := ih r.lt r.keepL hc
    simp only [List.map_cons, List.sum_cons, this, coeff, hd, hk]
    ring

theorem coeff_nonneg (m : ℝ) (hm : 0 ≤ m) (r : Row ℝ) (h1 : r.lt ≤ r.dt)
    (h4 : r.keepL = false → r.keepD = false) : 0 ≤ coeff m r := by
  unfold coeff
  cases hL : r.keepL
  · have := h4 hL
    simp [trans, this]
  · cases hD : r.keepD
    · simp [trans, Real.exp_nonneg]
    · simp only [trans, if_true, sub_nonneg]
      apply Real.exp_le_exp.2
      nlinarith

/-- weighted sum of non-negative coefficients lies between the extreme weights times the coefficient sum -/
theorem sum_bounds (m bmin bmax : ℝ) (rows : List (Row ℝ))
    (hc : ∀ r ∈ rows, 0 ≤ coeff m r) (hb : ∀ r ∈ rows, bmin ≤ r.b ∧ r.b ≤ bmax) :
    bmin * (rows.map (coeff m)).sum ≤ (rows.map (fun r => r.b * coeff m r)).sum ∧
    (rows.map (fun r => r.b * coeff m r)).sum ≤ bmax * (rows.map (coeff m)).sum := by
  induction rows with
  | nil => simp
  | cons r rs ih =>
    have h1 := hc r (by simp)
    have h2 := hb r (by simp)
    have ih' := ih (fun r hr => hc r (by simp [hr])) (fun r hr => hb r (by simp [hr]))
    simp only [List.map_cons, List.sum_cons]
    constructor
    · nlinarith [ih'.1, mul_nonneg (sub_nonneg.2 h2.1) h1]
    · nlinarith [ih'.2, mul_nonneg (sub_nonneg.2 h2.2) h1]

theorem sum_const (m b : ℝ) (rows : List (Row ℝ)) (hb : ∀ r ∈ rows, r.b = b) :
    (rows.map (fun r => r.b * coeff m r)).sum = b * (rows.map (coeff m)).sum := by
  induction rows with
  | nil => simp
  | cons r rs ih =>
    have h2 := hb r (by simp)
    have ih' := ih (fun r hr => hb r (by simp [hr]))
    simp only [List.map_cons, List.sum_cons, ih', h2]
    ring

theorem rowsOk_coeff_nonneg (m : ℝ) (hm : 0 ≤ m) (rows : List (Row ℝ)) (h : RowsOk rows) :
    ∀ r ∈ rows, 0 ≤ coeff m r := by
  intro r hr
  obtain ⟨h1, _, _, h4⟩ := h r hr
  exact coeff_nonneg m hm r h1 h4

/-- total weight `S = exp(-τ₀/μ) + Σ_l c_l` of the source functions -/
theorem weight_total (m : ℝ) (rows : List (Row ℝ)) (t : ℝ) (k : Bool) (h : Chain t k rows) :
    Real.exp ((-t) * m) + (rows.map (coeff m)).sum = 1 + (Real.exp ((-t) * m) - trans k t m) := by
  rw [coeff_sum_chain m rows t k h]; ring

theorem exp_neg_le_em10 (t m : ℝ) (ht : 10 ≤ t) (hm : 1 ≤ m) : Real.exp ((-t) * m) ≤ Real.exp (-10) := by
  apply Real.exp_le_exp.2
  nlinarith

theorem weight_total_bounds (m : ℝ) (hm : 1 ≤ m) (t : ℝ) (k : Bool) (hk : k = false → 10 ≤ t) :
    0 ≤ Real.exp ((-t) * m) - trans k t m ∧ Real.exp ((-t) * m) - trans k t m ≤ Real.exp (-10) := by
  cases k
  · simp only [trans_false, sub_zero]
    exact ⟨Real.exp_nonneg _, exp_neg_le_em10 t m (hk rfl) hm⟩
  · simp [trans_true, Real.exp_nonneg]

/-! ### Planck function -/

/-- positivity hypotheses on the constants of `black_body_numba` -/
def PCPos (k : PC ℝ) : Prop := 0 < k.pi ∧ 0 < k.h ∧ 0 < k.c ∧ 0 < k.kb ∧ 0 < k.conv ∧ 0 < k.scale

theorem planck_unfold (k : PC ℝ) (nu t : ℝ) :
    planck k nu t = (k.pi * (2 * k.h * (k.c * k.c)) / (k.conv / nu * (k.conv / nu) * (k.conv / nu) * (k.conv / nu) * (k.conv / nu)))
      * (1 / (Real.exp ((k.h * k.c) / (k.conv / nu * k.kb * t)) - 1)) * k.scale := rfl

theorem planck_pos' (k : PC ℝ) (hk : PCPos k) (nu t : ℝ) (hnu : 0 < nu) (ht : 0 < t) : 0 < planck k nu t := by
  obtain ⟨h1, h2, h3, h4, h5, h6⟩ := hk
  rw [planck_unfold]
  have hwl : 0 < k.conv / nu := div_pos h5 hnu
  have hx : 0 < (k.h * k.c) / (k.conv / nu * k.kb * t) := by positivity
  have he : 0 < Real.exp ((k.h * k.c) / (k.conv / nu * k.kb * t)) - 1 := by
    have := Real.add_one_lt_exp (ne_of_gt hx)
    linarith
  have hA : 0 < k.pi * (2 * k.h * (k.c * k.c)) / (k.conv / nu * (k.conv / nu) * (k.conv / nu) * (k.conv / nu) * (k.conv / nu)) := by
    positivity
  have hB : 0 < 1 / (Real.exp ((k.h * k.c) / (k.conv / nu * k.kb * t)) - 1) := one_div_pos.2 he
  exact mul_pos (mul_pos hA hB) h6

theorem planck_mono' (k : PC ℝ) (hk : PCPos k) (nu t1 t2 : ℝ) (hnu : 0 < nu) (ht1 : 0 < t1) (h12 : t1 ≤ t2) :
    planck k nu t1 ≤ planck k nu t2 := by
  obtain ⟨h1, h2, h3, h4, h5, h6⟩ := hk
  have ht2 : 0 < t2 := lt_of_lt_of_le ht1 h12
  rw [planck_unfold, planck_unfold]
  have hwl : 0 < k.conv / nu := div_pos h5 hnu
  have hA : 0 < k.pi * (2 * k.h * (k.c * k.c)) / (k.conv / nu * (k.conv / nu) * (k.conv / nu) * (k.conv / nu) * (k.conv / nu)) := by
    positivity
  have hx2 : 0 < (k.h * k.c) / (k.conv / nu * k.kb * t2) := by positivity
  have hxle : (k.h * k.c) / (k.conv / nu * k.kb * t2) ≤ (k.h * k.c) / (k.conv / nu * k.kb * t1) := by
    apply div_le_div_of_nonneg_left (by positivity) (by positivity)
    have : 0 < k.conv / nu * k.kb := by positivity
    nlinarith
  have he2 : 0 < Real.exp ((k.h * k.c) / (k.conv / nu * k.kb * t2)) - 1 := by
    have := Real.add_one_lt_exp (ne_of_gt hx2)
    linarith
  have hele : Real.exp ((k.h * k.c) / (k.conv / nu * k.kb * t2)) - 1 ≤ Real.exp ((k.h * k.c) / (k.conv / nu * k.kb * t1)) - 1 := by
    have := Real.exp_le_exp.2 hxle
    linarith
  have hB : 1 / (Real.exp ((k.h * k.c) / (k.conv / nu * k.kb * t1)) - 1) ≤ 1 / (Real.exp ((k.h * k.c) / (k.conv / nu * k.kb * t2)) - 1) :=
    one_div_le_one_div_of_le he2 hele
  have := mul_le_mul_of_nonneg_left hB hA.le
  exact mul_le_mul_of_nonneg_right this h6.le

/-! ### quadrature -/

theorem angleSum_eq (qs : List (ℝ × ℝ × ℝ)) : angleSum qs = (qs.map (fun q => q.1 * (q.2.1 / q.2.2))).sum := by
  unfold angleSum
  rw [foldl_add_sum]; simp

theorem quad_sum (l : List (ℝ × ℝ)) (hx : ∀ p ∈ l, p.1 + 1 ≠ 0) :
    (l.map (fun p => wOf p.2 / muInvOf p.1)).sum = ((l.map (fun p => p.2 * p.1)).sum + (l.map (fun p => p.2)).sum) / 4 := by
  induction l with
  | nil => simp
  | cons p ps ih =>
    have h := hx p (by simp)
    have ih' := ih (fun q hq => hx q (by simp [hq]))
    simp only [List.map_cons, List.sum_cons, ih']
    unfold wOf muInvOf muOf
    field_simp
    ring

theorem zip_const_map (c : ℝ) (xs wts : List ℝ) :
    ((xs.map (fun _ => c)).zip (xs.zip wts)).map (fun q => (q.1, wOf q.2.2, muInvOf q.2.1))
      = (xs.zip wts).map (fun p => (c, wOf p.2, muInvOf p.1)) := by
  induction xs generalizing wts with
  | nil => simp
  | cons x xs ih =>
    cases wts with
    | nil => simp
    | cons w ws =>
      simp only [List.map_cons, List.zip_cons_cons, ih ws]

theorem fluxOf_const (npPi c : ℝ) (xs wts : List ℝ) :
    fluxOf npPi (xs.map (fun _ => c)) xs wts
      = 2 * npPi * (c * ((xs.zip wts).map (fun p => wOf p.2 / muInvOf p.1)).sum) := by
  unfold fluxOf fluxTotal
  rw [zip_const_map, angleSum_eq, List.map_map]
  congr 1
  rw [← List.sum_map_mul_left]
  rfl

/-! ### the licensed clamp deviation -/

/-- the row with both clamp decisions forced to "keep" -/
def uncut (r : Row ℝ) : Row ℝ := { r with keepL := true, keepD := true }

theorem coeff_uncut_diff (m : ℝ) (hm : 1 ≤ m) (r : Row ℝ)
    (hL : r.keepL = false → (10 : ℝ) ≤ r.lt) (hD : r.keepD = false → (10 : ℝ) ≤ r.dt)
    (hLD : r.keepL = false → r.keepD = false) :
    |coeff m r - coeff m (uncut r)| ≤ Real.exp (-10) * (if r.keepD then 0 else 1) := by
  obtain ⟨l0, l1⟩ := weight_total_bounds m hm r.lt r.keepL hL
  obtain ⟨d0, d1⟩ := weight_total_bounds m hm r.dt r.keepD hD
  have e : coeff m r - coeff m (uncut r)
      = (Real.exp ((-r.dt) * m) - trans r.keepD r.dt m) - (Real.exp ((-r.lt) * m) - trans r.keepL r.lt m) := by
    simp only [coeff, uncut, trans_true]; ring
  rw [e]
  cases hd : r.keepD
  · simp only [Bool.false_eq_true, if_false, mul_one]
    rw [hd] at d0 d1
    rw [abs_le]; constructor <;> linarith
  · have hl : r.keepL = true := by
      cases h : r.keepL
      · have := hLD h; rw [hd] at this; cases this
      · rfl
    simp [hl, trans_true]

theorem clamp_band_rows (m b0 t : ℝ) (hm : 1 ≤ m) (rows : List (Row ℝ)) (hok : RowsOk rows)
    (hb : ∀ r ∈ rows, 0 ≤ r.b) :
    |intensityRows b0 t m rows - intensityRows b0 t m (rows.map uncut)|
      ≤ Real.exp (-10) * (rows.map (fun r => if r.keepD then 0 else r.b)).sum := by
  rw [intensityRows_eq, intensityRows_eq, List.map_map]
  have e : ∀ (x a b : ℝ), x + a - (x + b) = a - b := by intros; ring
  rw [e]
  induction rows with
  | nil => simp
  | cons r rs ih =>
    obtain ⟨_, h2, h3, h4⟩ := hok r (by simp)
    have hb0 := hb r (by simp)
    have ih' := ih (fun q hq => hok q (by simp [hq])) (fun q hq => hb q (by simp [hq]))
    have hd := coeff_uncut_diff m hm r h2 h3 h4
    simp only [List.map_cons, List.sum_cons, Function.comp]
    have hub : (uncut r).b = r.b := rfl
    rw [hub]
    generalize (rs.map (fun r => r.b * coeff m r)).sum = A at ih' ⊢
    generalize (rs.map ((fun r => r.b * coeff m r) ∘ uncut)).sum = B at ih' ⊢
    have e2 : r.b * coeff m r + A - (r.b * coeff m (uncut r) + B)
        = r.b * (coeff m r - coeff m (uncut r)) + (A - B) := by ring
    rw [e2]
    refine le_trans (abs_add_le _ _) ?_
    rw [abs_mul, abs_of_nonneg hb0, mul_add]
    have h5 : r.b * |coeff m r - coeff m (uncut r)| ≤ Real.exp (-10) * (if r.keepD then 0 else r.b) := by
      have := mul_le_mul_of_nonneg_left hd hb0
      cases hk : r.keepD <;> simp [hk] at this ⊢ <;> linarith
    linarith

end Taurex.Emission
