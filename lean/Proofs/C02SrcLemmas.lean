/-
  Helper lemmas for the source ties `Props/C02Src.lean` and `Props/C20Src.lean`: how the folds the source translator
  generates (state = whole arrays `Nat → α`, tuples of them, loops over `List.range'`) relate to the `List` folds of the
  hand-written models.  Core only; no algebra on the carrier.
-/
import TaurexModel.Emission
set_option linter.unusedSectionVars false

namespace Taurex.SrcLemmas

/-- a fold whose state is observed through `p`: if one step acts on the observation like `f` (for the elements of the
    list), the whole fold does -/
theorem foldl_proj_mem {σ β γ : Type} (step : σ → β → σ) (p : σ → γ) (f : γ → β → γ) (l : List β)
    (h : ∀ s, ∀ b ∈ l, p (step s b) = f (p s) b) (s0 : σ) : p (l.foldl step s0) = l.foldl f (p s0) := by
  induction l generalizing s0 with
  | nil => rfl
  | cons b bs ih =>
    simp only [List.foldl_cons]
    rw [ih (fun s b' hb' => h s b' (List.mem_cons_of_mem _ hb')) (step s0 b), h s0 b (List.mem_cons_self ..)]

theorem foldl_proj {σ β γ : Type} (step : σ → β → σ) (p : σ → γ) (f : γ → β → γ) (l : List β)
    (h : ∀ s b, p (step s b) = f (p s) b) (s0 : σ) : p (l.foldl step s0) = l.foldl f (p s0) :=
  foldl_proj_mem step p f l (fun s b _ => h s b) s0

/-- two independent accumulators carried as a pair -/
theorem foldl_pair {σ τ β : Type} (f : σ → β → σ) (g : τ → β → τ) (l : List β) (a : σ) (b : τ) :
    l.foldl (fun (st : σ × τ) x => (f st.1 x, g st.2 x)) (a, b) = (l.foldl f a, l.foldl g b) := by
  induction l generalizing a b with
  | nil => rfl
  | cons x xs ih => simp only [List.foldl_cons]; exact ih _ _

/-- a loop over positions `s, s+1, …` that only reads `u i` is the fold over the list of those values -/
theorem foldl_range'_eq {β γ : Type} (f : γ → β → γ) (l : List β) (u : Nat → β) (s : Nat)
    (h : ∀ i (hi : i < l.length), u (s + i) = l[i]) (a : γ) :
    (List.range' s l.length).foldl (fun a i => f a (u i)) a = l.foldl f a := by
  induction l generalizing s a with
  | nil => rfl
  | cons x xs ih =>
    simp only [List.length_cons, List.range'_succ, List.foldl_cons]
    have h0 := h 0 (by simp)
    simp only [Nat.add_zero, List.getElem_cons_zero] at h0
    rw [h0]
    apply ih
    intro i hi
    have := h (i + 1) (by simp; omega)
    simp only [List.getElem_cons_succ] at this
    rw [← this]
    congr 1
    omega

/-- … in particular with `u = getD` -/
theorem foldl_range'_getD {β γ : Type} (f : γ → β → γ) (l : List β) (d : β) (a : γ) :
    (List.range' 0 l.length).foldl (fun a i => f a (l.getD i d)) a = l.foldl f a := by
  apply foldl_range'_eq f l (fun i => l.getD i d) 0
  intro i hi
  simp [List.getD_eq_getElem?_getD, hi]

theorem getD_map_range {β : Type} (F : Nat → β) (n l : Nat) (d : β) (h : l < n) :
    ((List.range n).map F).getD l d = F l := by
  simp [List.getD_eq_getElem?_getD, h]

section
variable {α : Type} [Add α] [Sub α] [Mul α] [Div α] [Neg α] [LT α] [LE α]
  [DecidableLT α] [DecidableLE α] [OfNat α 0] [OfNat α 1] [OfNat α 2] [OfNat α 4] [OfNat α 10]

/-- `tau[layer] += g k` for `k` in a list: what the loop leaves in `tau[layer]` -/
theorem foldl_update_at (g : Nat → α) (layer : Nat) (ks : List Nat) (tau : Nat → α) :
    (ks.foldl (fun (tau : Nat → α) k => fun i => if i = layer then tau layer + g k else tau i) tau) layer
      = ks.foldl (fun a k => a + g k) (tau layer) := by
  apply foldl_proj (fun (tau : Nat → α) k => fun i => if i = layer then tau layer + g k else tau i)
    (fun tau => tau layer) (fun a k => a + g k)
  intro s b
  simp only [if_true]

/-- arrays of the models (`List`, read with `getD · 0`) as the translator sees arrays -/
def fn (l : List α) : Nat → α := fun i => l.getD i 0

/-- the constants as the code has them: `PI, PLANCK, SPDLIGT, KBOLTZ` are the module constants of `taurex.constants`,
    `conv` is the product `10000*1e-6` of `_convert_lamb`, `scale` the literal `1e-6` of `_black_body_vec`
    (`lit` = the float literal `1e-6`, which occurs in both kernels) -/
def pcOf [OfNat α 10000] (pi h c kb lit : α) : Emission.PC α :=
  { pi := pi, h := h, c := c, kb := kb, conv := (10000 : α) * lit, scale := lit }

/-- `for g in range(s, s+n): tt[g] += F g`: what the loop leaves at position `g0` -/
theorem foldl_update_each (F : Nat → α) (n s : Nat) (tt : Nat → α) (g0 : Nat) :
    ((List.range' s n).foldl (fun (tt : Nat → α) g => fun i => if i = g then tt g + F g else tt i) tt) g0
      = if s ≤ g0 ∧ g0 < s + n then tt g0 + F g0 else tt g0 := by
  induction n generalizing s tt with
  | zero =>
    have : ¬ (s ≤ g0 ∧ g0 < s + 0) := by omega
    simp only [List.range'_zero, List.foldl_nil, this, if_false]
  | succ n ih =>
    simp only [List.range'_succ, List.foldl_cons]
    rw [ih]
    by_cases h : g0 = s
    · subst h
      have h1 : ¬ (g0 + 1 ≤ g0 ∧ g0 < g0 + 1 + n) := by omega
      have h2 : g0 ≤ g0 ∧ g0 < g0 + (n + 1) := by omega
      simp only [h1, h2, if_false, if_true, and_self]
    · by_cases h' : s + 1 ≤ g0 ∧ g0 < s + 1 + n
      · have h2 : s ≤ g0 ∧ g0 < s + (n + 1) := by omega
        simp only [h', h2, h, if_true, if_false, and_self]
      · have h2 : ¬ (s ≤ g0 ∧ g0 < s + (n + 1)) := by omega
        simp only [h', h2, h, if_false]

/-- the k-loop around the g-loop (`tau_temp[g] += F k g`), observed at one `g0 < ng`: the sum over `k` alone -/
theorem foldl_nested (F : Nat → Nat → α) (ng : Nat) (ks : List Nat) (tt : Nat → α) (g0 : Nat) (hg : g0 < ng) :
    (ks.foldl (fun (tt : Nat → α) k =>
        (List.range' 0 ng).foldl (fun (tt : Nat → α) g => fun i => if i = g then tt g + F k g else tt i) tt) tt) g0
      = ks.foldl (fun a k => a + F k g0) (tt g0) := by
  apply foldl_proj (fun (tt : Nat → α) k =>
      (List.range' 0 ng).foldl (fun (tt : Nat → α) g => fun i => if i = g then tt g + F k g else tt i) tt)
    (fun tt => tt g0) (fun a k => a + F k g0)
  intro tt k
  show ((List.range' 0 ng).foldl (fun (tt : Nat → α) g => fun i => if i = g then tt g + F k g else tt i) tt) g0 = _
  rw [foldl_update_each (F k) ng 0 tt g0]
  have : 0 ≤ g0 ∧ g0 < 0 + ng := by omega
  simp only [this, if_true, and_self]

/-- a sum over `g = 0 … ws.length-1` of a term in `T g` and `ws[g]` is the fold over `zip (map T' range) ws` -/
theorem foldl_zip_range (φ : α → α → α) (T T' : Nat → α) (ws : List α) (h : ∀ g, g < ws.length → T g = T' g) (a0 : α) :
    (List.range' 0 ws.length).foldl (fun a g => a + φ (T g) (fn ws g)) a0
      = (((List.range ws.length).map T').zip ws).foldl (fun a p => a + φ p.1 p.2) a0 := by
  have hlen : (((List.range ws.length).map T').zip ws).length = ws.length := by simp
  have := foldl_range'_eq (fun a (p : α × α) => a + φ p.1 p.2) (((List.range ws.length).map T').zip ws)
    (fun g => (T g, fn ws g)) 0 (by
      intro i hi
      rw [hlen] at hi
      simp [fn, List.getD_eq_getElem?_getD, hi, h i hi]) a0
  rw [hlen] at this
  exact this

/-- `ndarray.min()` as the translator writes it -/
def foldMin (n : Nat) (v : Nat → α) : α :=
  (List.range' 1 (n - 1)).foldl (fun m r => if v r < m then v r else m) (v 0)

/-- … is `Emission.vmin` of the list of the values -/
theorem foldMin_eq_vmin {β : Type} (cols : List β) (g : β → α) (v : Nat → α) (d : β)
    (h : ∀ j, j < cols.length → v j = g (cols.getD j d)) (hne : cols ≠ []) :
    foldMin cols.length v = Emission.vmin (cols.map g) := by
  cases cols with
  | nil => exact absurd rfl hne
  | cons c cs =>
    unfold foldMin Emission.vmin
    simp only [List.length_cons, Nat.add_sub_cancel, List.map_cons]
    have h0 := h 0 (by simp)
    simp only [List.getD_cons_zero] at h0
    rw [h0]
    have := foldl_range'_eq (fun m y => if y < m then y else m) (cs.map g) v 1 (by
      intro i hi
      simp only [List.length_map] at hi
      have := h (1 + i) (by simp; omega)
      rw [this]
      simp [List.getD_eq_getElem?_getD, Nat.add_comm 1 i, hi]) (g c)
    simp only [List.length_map] at this
    exact this

end

end Taurex.SrcLemmas
