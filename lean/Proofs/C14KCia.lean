/-
  Model-level lemmas about the k-table variant of the cache machine (`CacheSM.stepK`) and about the CIA cache machine
  (`CiaSM`), used by Props/C14.lean.  Core only.
-/
import TaurexModel.CacheSM
set_option linter.unusedSectionVars false

namespace Taurex.CacheSM

theorem hasKey_false_of_lookup_none (d : List (String × Obj)) (m : String) (h : lookup d m = none) : hasKey d m = false := by
  unfold lookup at h
  unfold hasKey
  simp only [Option.map_eq_none_iff, List.find?_eq_none] at h
  simp only [List.any_eq_false]
  exact h

theorem foldl_loadStep_noop (m : String) (fl : List FileEntry) (s : CSt) (h : ∀ e ∈ fl, e.disc ≠ m) :
    fl.foldl (loadStep m) s = s := by
  induction fl generalizing s with
  | nil => rfl
  | cons e fl ih =>
    have he : (e.disc == m) = false := by simpa using h e (by simp)
    simp only [List.foldl_cons, loadStep, he, Bool.false_and, Bool.false_eq_true, if_false]
    exact ih s (fun e' h' => h e' (by simp [h']))

theorem foldl_loadStepK_noop (m : String) (fl : List FileEntry) (s : CSt) (h : ∀ e ∈ fl, e.disc ≠ m) :
    fl.foldl (loadStepK m) s = s := by
  induction fl generalizing s with
  | nil => rfl
  | cons e fl ih =>
    have he : (e.disc == m) = false := by simpa using h e (by simp)
    simp only [List.foldl_cons, loadStepK, he, Bool.false_eq_true, if_false]
    exact ih s (fun e' h' => h e' (by simp [h']))

/-- with at most one file per advertised name, the k-table loop (which constructs every matching file) and the cross-section
    loop (which stops constructing once the molecule is cached) do the same -/
theorem foldl_loadStepK_eq (m : String) (fl : List FileEntry) (s : CSt) (hn : (fl.map (·.disc)).Nodup)
    (hk : hasKey s.dict m = false) : fl.foldl (loadStepK m) s = fl.foldl (loadStep m) s := by
  induction fl generalizing s with
  | nil => rfl
  | cons e fl ih =>
    simp only [List.map_cons, List.nodup_cons] at hn
    by_cases he : e.disc = m
    · have h1 : loadStepK m s e = loadStep m s e := by
        subst he
        simp [loadStepK, loadStep, hk]
      have hrest : ∀ e' ∈ fl, e'.disc ≠ m := by
        intro e' h' hc
        exact hn.1 (by rw [he, ← hc]; exact List.mem_map_of_mem h')
      simp only [List.foldl_cons, h1, foldl_loadStep_noop m fl _ hrest, foldl_loadStepK_noop m fl _ hrest]
    · have he' : (e.disc == m) = false := by simpa using he
      simp only [List.foldl_cons, loadStepK, loadStep, he', Bool.false_and, Bool.false_eq_true, if_false]
      exact ih s hn.2 hk

theorem curFiles_nodup (fs : List Dir) (hu : UniqueDisc fs) (s : CSt) : ((curFiles fs s).map (·.disc)).Nodup := by
  unfold curFiles
  cases s.path with
  | none => simp
  | some p =>
    simp only []
    cases hd : fs[p]? with
    | none => simp
    | some d =>
      simp only []
      by_cases hi : d.isDir = true
      · simp only [hi, if_true]
        exact hu d (List.mem_of_getElem? hd)
      · simp [hi]

/-- **the k-table cache is the same machine** as long as no directory holds two files advertising one molecule -/
theorem stepK_eq_step (fs : List Dir) (hu : UniqueDisc fs) (s : CSt) (op : COp) : stepK fs s op = step fs s op := by
  cases op with
  | get m =>
    simp only [stepK, step]
    cases hl : lookup s.dict m with
    | some o => rfl
    | none =>
      have : loadFromK fs m s = loadFrom fs m s :=
        foldl_loadStepK_eq m _ s (curFiles_nodup fs hu s) (hasKey_false_of_lookup_none _ _ hl)
      simp only [this]
  | _ => rfl

theorem runK_eq_run (fs : List Dir) (hu : UniqueDisc fs) (ops : List COp) (s : CSt) : runK fs s ops = run fs s ops := by
  induction ops generalizing s with
  | nil => rfl
  | cons op ops ih =>
    show runK fs (stepK fs s op).1 ops = run fs (step fs s op).1 ops
    rw [stepK_eq_step fs hu]
    exact ih _

theorem traceK_eq_trace (fs : List Dir) (hu : UniqueDisc fs) (ops : List COp) (s : CSt) :
    traceK fs s ops = trace fs s ops := by
  induction ops generalizing s with
  | nil => rfl
  | cons op ops ih => simp only [traceK, trace, stepK_eq_step fs hu, ih]

end Taurex.CacheSM
namespace Taurex.CiaSM

/-- entries are never removed or replaced; the log only grows by entries naming `m` -/
def Ext (m : String) (s s' : St) : Prop :=
  (∀ k o, lookup s.dict k = some o → lookup s'.dict k = some o) ∧
  (∃ extra, s'.log = s.log ++ extra ∧ ∀ e ∈ extra, e.1 = m) ∧ s'.path = s.path

theorem Ext.refl (m : String) (s : St) : Ext m s s := ⟨fun _ _ h => h, ⟨[], by simp, by simp⟩, rfl⟩

theorem Ext.trans {m : String} {a b c : St} (h1 : Ext m a b) (h2 : Ext m b c) : Ext m a c := by
  obtain ⟨p1, ⟨e1, l1, q1⟩, r1⟩ := h1
  obtain ⟨p2, ⟨e2, l2, q2⟩, r2⟩ := h2
  refine ⟨fun k o h => p2 k o (p1 k o h), ⟨e1 ++ e2, by rw [l2, l1, List.append_assoc], ?_⟩, r2.trans r1⟩
  intro e he
  rcases List.mem_append.1 he with h | h
  · exact q1 e h
  · exact q2 e h

theorem lookup_append_of_some (d : List (String × CObj)) (kv : String × CObj) (k : String) (o : CObj)
    (h : lookup d k = some o) : lookup (d ++ [kv]) k = some o := by
  unfold lookup at h ⊢
  rw [List.find?_append]
  cases hf : List.find? (fun e => e.1 == k) d with
  | none => simp [hf] at h
  | some x => simpa [hf] using h

theorem addCia_ext (m : String) (s : St) (o : CObj) : Ext m s (addCia s o).1 := by
  unfold addCia
  split
  · exact Ext.refl m s
  · exact ⟨fun k o' h => lookup_append_of_some _ _ _ _ h, ⟨[], by simp, by simp⟩, rfl⟩

theorem loadStepPinned_ext (m : String) (s : St) (e : CFile) : Ext m s (loadStepPinned m s e).1 := by
  unfold loadStepPinned
  split
  · refine Ext.trans (b := { s with nextId := s.nextId + 1, log := s.log ++ [(m, e.fileId)] }) ?_ (addCia_ext m _ _)
    exact ⟨fun _ _ h => h, ⟨[(m, e.fileId)], rfl, by simp⟩, rfl⟩
  · exact Ext.refl m s

theorem loadStep_ext (m : String) (s : St) (e : CFile) : Ext m s (loadStep m s e).1 := by
  unfold loadStep
  split
  · refine Ext.trans (b := { s with nextId := s.nextId + 1, log := s.log ++ [(m, e.fileId)] }) ?_ (addCia_ext m _ _)
    exact ⟨fun _ _ h => h, ⟨[(m, e.fileId)], rfl, by simp⟩, rfl⟩
  · exact Ext.refl m s

theorem forB_ext {β : Type} (m : String) (f : St → β → St × Bool) (hf : ∀ s x, Ext m s (f s x).1) (l : List β) (s : St) :
    Ext m s (forB f s l).1 := by
  induction l generalizing s with
  | nil => exact Ext.refl m s
  | cons x l ih =>
    unfold forB
    have h1 := hf s x
    rcases hfx : f s x with ⟨s', b⟩
    rw [hfx] at h1
    cases b with
    | true => exact h1
    | false => exact Ext.trans h1 (ih s')

section
variable (ls : String → St → CFile → St × Bool) (hls : ∀ m s e, Ext m s (ls m s e).1)
include hls

theorem loadDirWith_ext (fs : List CDir) (m : String) (s : St) (p : Nat) : Ext m s (loadDirWith ls fs m s p).1 := by
  unfold loadDirWith
  have h1 := forB_ext m (ls m) (hls m) (dirFiles fs p .db) s
  rcases hf : forB (ls m) s (dirFiles fs p .db) with ⟨s', b⟩
  rw [hf] at h1
  cases b with
  | true => exact h1
  | false => exact Ext.trans h1 (forB_ext m (ls m) (hls m) _ s')

theorem loadCiaWith_ext (fs : List CDir) (m : String) (s : St) : Ext m s (loadCiaWith ls fs m s).1 := by
  unfold loadCiaWith
  cases s.path with
  | none => exact Ext.refl m s
  | some q =>
    cases q with
    | single p => exact loadDirWith_ext ls hls fs m s p
    | many ps => exact forB_ext m (loadDirWith ls fs m) (loadDirWith_ext ls hls fs m) ps s

end

theorem loadCia_ext (fs : List CDir) (m : String) (s : St) : Ext m s (loadCia fs m s).1 :=
  loadCiaWith_ext loadStep loadStep_ext fs m s

/-- one operation never removes or replaces a cached pair -/
theorem step_keeps (fs : List CDir) (s : St) (op : Op) (k : String) (o : CObj) (h : lookup s.dict k = some o) :
    lookup (step fs s op).1.dict k = some o := by
  cases op with
  | get m =>
    simp only [step, stepWith]
    cases hl : lookup s.dict m with
    | some o' => exact h
    | none =>
      have he := loadCia_ext fs m s
      rcases hc : loadCiaWith loadStep fs m s with ⟨s', b⟩
      have hc' : loadCia fs m s = (s', b) := hc
      rw [hc'] at he
      cases b with
      | true => exact he.1 k o h
      | false =>
        simp only []
        cases lookup s'.dict m <;> exact he.1 k o h
  | setPath p => exact h
  | add m =>
    simp only [step, stepWith]
    have he := addCia_ext m { s with nextId := s.nextId + 1 } { id := s.nextId, pair := m, src := none }
    rcases hc : addCia { s with nextId := s.nextId + 1 } { id := s.nextId, pair := m, src := none } with ⟨s', b⟩
    rw [hc] at he
    cases b <;> exact he.1 k o h

theorem run_keeps (fs : List CDir) (ops : List Op) (s : St) (k : String) (o : CObj) (h : lookup s.dict k = some o) :
    lookup (run fs s ops).dict k = some o := by
  induction ops generalizing s with
  | nil => exact h
  | cons op ops ih => exact ih _ (step_keeps fs s op k o h)

/-- while a pair is cached, no operation constructs an object for it -/
theorem step_loads (fs : List CDir) (s : St) (op : Op) (k : String) (o : CObj) (h : lookup s.dict k = some o) :
    loadsOf (step fs s op).1 k = loadsOf s k := by
  cases op with
  | get m =>
    simp only [step, stepWith]
    cases hl : lookup s.dict m with
    | some o' => rfl
    | none =>
      have hne : m ≠ k := by
        intro hmk
        rw [hmk, h] at hl
        cases hl
      have he := loadCia_ext fs m s
      have key : ∀ s' : St, Ext m s s' → loadsOf s' k = loadsOf s k := by
        intro s' hs'
        obtain ⟨_, ⟨extra, hlog, hq⟩, _⟩ := hs'
        unfold loadsOf
        rw [hlog, List.filter_append, List.length_append]
        have : List.filter (fun e => e.1 == k) extra = [] := by
          rw [List.filter_eq_nil_iff]
          intro e he'
          simp [hq e he', hne]
        simp [this]
      rcases hc : loadCiaWith loadStep fs m s with ⟨s', b⟩
      have hc' : loadCia fs m s = (s', b) := hc
      rw [hc'] at he
      cases b with
      | true => exact key s' he
      | false =>
        simp only []
        cases lookup s'.dict m <;> exact key s' he
  | setPath p => rfl
  | add m =>
    simp only [step, stepWith]
    have he := addCia_ext m { s with nextId := s.nextId + 1 } { id := s.nextId, pair := m, src := none }
    rcases hc : addCia { s with nextId := s.nextId + 1 } { id := s.nextId, pair := m, src := none } with ⟨s', b⟩
    rw [hc] at he
    obtain ⟨_, ⟨extra, hlog, hq⟩, _⟩ := he
    have : s'.log = s.log := by
      have h2 : (addCia { s with nextId := s.nextId + 1 } { id := s.nextId, pair := m, src := none }).1.log = s.log := by
        unfold addCia; split <;> rfl
      rw [hc] at h2; exact h2
    cases b <;> simp [loadsOf, this]

theorem run_loads (fs : List CDir) (ops : List Op) (s : St) (k : String) (o : CObj) (h : lookup s.dict k = some o) :
    loadsOf (run fs s ops) k = loadsOf s k := by
  induction ops generalizing s with
  | nil => rfl
  | cons op ops ih =>
    show loadsOf (run fs (step fs s op).1 ops) k = _
    rw [ih _ (step_keeps fs s op k o h), step_loads fs s op k o h]

theorem step_get_hit {fs : List CDir} {s : St} {m : String} {o : CObj} (h : lookup s.dict m = some o) :
    step fs s (.get m) = (s, .served o) := by
  simp only [step, stepWith, h]

theorem step_get_served {fs : List CDir} {s : St} {m : String} {o : CObj} (h : (step fs s (.get m)).2 = .served o) :
    lookup (step fs s (.get m)).1.dict m = some o := by
  simp only [step, stepWith] at h ⊢
  cases hl : lookup s.dict m with
  | some o' => simp only [hl] at h ⊢; cases h; rfl
  | none =>
    simp only [hl] at h ⊢
    rcases hc : loadCiaWith loadStep fs m s with ⟨s', b⟩
    simp only [hc] at h ⊢
    cases b with
    | true => cases h
    | false =>
      simp only [] at h ⊢
      cases hl2 : lookup s'.dict m with
      | some o' => simp only [hl2] at h ⊢; cases h; rfl
      | none => simp only [hl2] at h; cases h

end Taurex.CiaSM

/-! ### the repaired scan (fix d5856f4): the first container found for a pair is the one served -/

namespace Taurex.CiaSM

theorem forB_append {σ β : Type} (f : σ → β → σ × Bool) (l1 l2 : List β) (s : σ) :
    forB f s (l1 ++ l2) = match forB f s l1 with
      | (s', true) => (s', true)
      | (s', false) => forB f s' l2 := by
  induction l1 generalizing s with
  | nil => rfl
  | cons x l1 ih =>
    simp only [List.cons_append, forB]
    rcases f s x with ⟨s', b⟩
    cases b with
    | true => rfl
    | false => exact ih s'

theorem forB_flatMap {σ β γ : Type} (f : σ → β → σ × Bool) (g : γ → List β) (ps : List γ) (s : σ) :
    forB (fun s p => forB f s (g p)) s ps = forB f s (ps.flatMap g) := by
  induction ps generalizing s with
  | nil => rfl
  | cons p ps ih =>
    simp only [List.flatMap_cons, forB_append, forB]
    rcases forB f s (g p) with ⟨s', b⟩
    cases b with
    | true => rfl
    | false => exact ih s'

/-- the files of a directory in the order `load_cia_from_path` visits them: `.db` files, then `.cia` files -/
def dirScan (fs : List CDir) (p : Nat) : List CFile := dirFiles fs p .db ++ dirFiles fs p .cia

/-- the files of the configured path in scan order -/
def scan (fs : List CDir) : Option CPath → List CFile
  | none => []
  | some (.single p) => dirScan fs p
  | some (.many ps) => ps.flatMap (dirScan fs)

theorem loadDirWith_eq (ls : String → St → CFile → St × Bool) (fs : List CDir) (m : String) (s : St) (p : Nat) :
    loadDirWith ls fs m s p = forB (ls m) s (dirScan fs p) := by
  unfold loadDirWith dirScan
  rw [forB_append]
  rcases forB (ls m) s (dirFiles fs p .db) with ⟨s', b⟩
  cases b <;> rfl

/-- loading is one loop over the files of the path in scan order, stopping at the first raise -/
theorem loadCiaWith_eq (ls : String → St → CFile → St × Bool) (fs : List CDir) (m : String) (s : St) :
    loadCiaWith ls fs m s = forB (ls m) s (scan fs s.path) := by
  unfold loadCiaWith scan
  cases s.path with
  | none => rfl
  | some q =>
    cases q with
    | single p => exact loadDirWith_eq ls fs m s p
    | many ps =>
      have : loadDirWith ls fs m = fun s p => forB (ls m) s (dirScan fs p) := by
        funext s p; exact loadDirWith_eq ls fs m s p
      simp only [this]
      exact forB_flatMap (ls m) (dirScan fs) ps s

theorem mem_dirScan {fs : List CDir} {p : Nat} {e : CFile} (h : e ∈ dirScan fs p) : e ∈ fs.getD p [] := by
  unfold dirScan dirFiles at h
  rcases List.mem_append.1 h with h | h <;> exact (List.mem_filter.1 h).1

theorem mem_scan {fs : List CDir} {q : Option CPath} {e : CFile} (h : e ∈ scan fs q) : ∃ d ∈ fs, e ∈ d := by
  have key : ∀ p, e ∈ dirScan fs p → ∃ d ∈ fs, e ∈ d := by
    intro p hp
    have := mem_dirScan hp
    rw [List.getD_eq_getElem?_getD] at this
    cases hd : fs[p]? with
    | none => simp [hd] at this
    | some d => exact ⟨d, List.mem_of_getElem? hd, by simpa [hd] using this⟩
  cases q with
  | none => simp [scan] at h
  | some q =>
    cases q with
    | single p => exact key p h
    | many ps =>
      simp only [scan, List.mem_flatMap] at h
      obtain ⟨p, _, hp⟩ := h
      exact key p hp

theorem hasKey_append_self (d : List (String × CObj)) (m : String) (o : CObj) : hasKey (d ++ [(m, o)]) m = true := by
  simp [hasKey]

theorem lookup_append_new (d : List (String × CObj)) (m : String) (o : CObj) (h : lookup d m = none) :
    lookup (d ++ [(m, o)]) m = some o := by
  unfold lookup at h ⊢
  simp only [Option.map_eq_none_iff] at h
  rw [List.find?_append, h]
  simp

theorem hasKey_false_of_lookup_none (d : List (String × CObj)) (m : String) (h : lookup d m = none) : hasKey d m = false := by
  unfold lookup at h
  unfold hasKey
  simp only [Option.map_eq_none_iff, List.find?_eq_none] at h
  simp only [List.any_eq_false]
  exact h

/-- once `m` is cached, the scan for `m` skips every file -/
theorem forB_loadStep_cached (m : String) (l : List CFile) (s : St) (h : hasKey s.dict m = true) :
    forB (loadStep m) s l = (s, false) := by
  induction l with
  | nil => rfl
  | cons e l ih =>
    have : loadStep m s e = (s, false) := by
      unfold loadStep
      by_cases he : e.disc = m
      · simp [he, h]
      · have : (e.disc == m) = false := by simpa using he
        simp [this]
    simp only [forB, this, ih]

/-- the scan for an uncached pair `m` over files that name their objects as advertised: the FIRST file advertising `m` is
    constructed and cached, every other file is skipped, nothing raises -/
theorem forB_loadStep_first (m : String) (l : List CFile) (hl : ∀ e ∈ l, objPair e = e.disc) (s : St)
    (h : hasKey s.dict m = false) :
    forB (loadStep m) s l =
      match l.find? (fun e => e.disc == m) with
      | none => (s, false)
      | some e0 => ({ s with dict := s.dict ++ [(m, { id := s.nextId, pair := m, src := some e0.fileId })],
                             log := s.log ++ [(m, e0.fileId)], nextId := s.nextId + 1 }, false) := by
  induction l with
  | nil => rfl
  | cons e l ih =>
    by_cases he : e.disc = m
    · have hobj : objPair e = m := by rw [hl e (by simp), he]
      have h1 : loadStep m s e =
          ({ s with dict := s.dict ++ [(m, { id := s.nextId, pair := m, src := some e.fileId })],
                    log := s.log ++ [(m, e.fileId)], nextId := s.nextId + 1 }, false) := by
        unfold loadStep addCia
        simp [he, h, hobj]
      have hfind : List.find? (fun e => e.disc == m) (e :: l) = some e := by simp [he]
      simp only [forB, h1, hfind]
      exact forB_loadStep_cached m l _ (hasKey_append_self _ _ _)
    · have hne : (e.disc == m) = false := by simpa using he
      have h1 : loadStep m s e = (s, false) := by simp [loadStep, hne]
      have hfind : List.find? (fun e => e.disc == m) (e :: l) = List.find? (fun e => e.disc == m) l := by
        simp [List.find?, hne]
      simp only [forB, h1, hfind]
      exact ih (fun e' he' => hl e' (by simp [he']))


theorem scan_consistent {fs : List CDir} (hc : consistent fs) (q : Option CPath) : ∀ e ∈ scan fs q, objPair e = e.disc := by
  intro e he
  obtain ⟨d, hd, hed⟩ := mem_scan he
  exact hc d hd e hed

/-- a request for an uncached pair none of whose containers lies in the configured path: `missing`, state untouched -/
theorem step_get_none (fs : List CDir) (hc : consistent fs) (s : St) (m : String) (hl : lookup s.dict m = none)
    (hf : (scan fs s.path).find? (fun e => e.disc == m) = none) : step fs s (.get m) = (s, .missing) := by
  have h := forB_loadStep_first m (scan fs s.path) (scan_consistent hc s.path) s (hasKey_false_of_lookup_none _ _ hl)
  rw [hf] at h
  simp only [step, stepWith, hl, loadCiaWith_eq, h]

/-- **the first container is served**: a request for an uncached pair constructs the first file of the path (scan order:
    directories in path order, `.db` files before `.cia` files) that advertises the pair — and no other —, caches it and
    serves it; nothing raises -/
theorem step_get_first (fs : List CDir) (hc : consistent fs) (s : St) (m : String) (hl : lookup s.dict m = none)
    (e0 : CFile) (hf : (scan fs s.path).find? (fun e => e.disc == m) = some e0) :
    step fs s (.get m) =
      ({ s with dict := s.dict ++ [(m, { id := s.nextId, pair := m, src := some e0.fileId })],
                log := s.log ++ [(m, e0.fileId)], nextId := s.nextId + 1 },
       .served { id := s.nextId, pair := m, src := some e0.fileId }) := by
  have h := forB_loadStep_first m (scan fs s.path) (scan_consistent hc s.path) s (hasKey_false_of_lookup_none _ _ hl)
  rw [hf] at h
  simp only [step, stepWith, hl, loadCiaWith_eq, h, lookup_append_new _ _ _ hl]

/-- with files that name their objects as advertised a request never raises the duplicate exception -/
theorem step_get_no_dup (fs : List CDir) (hc : consistent fs) (s : St) (m : String) : (step fs s (.get m)).2 ≠ .dup := by
  cases hl : lookup s.dict m with
  | some o => simp [step, stepWith, hl]
  | none =>
    cases hf : (scan fs s.path).find? (fun e => e.disc == m) with
    | none => rw [step_get_none fs hc s m hl hf]; simp
    | some e0 => rw [step_get_first fs hc s m hl e0 hf]; simp

end Taurex.CiaSM
