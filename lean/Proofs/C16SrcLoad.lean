/-
  C16 — source tie, the loader: the oracle for `load_generic_profile_from_hdf5`, `get_klass_args`, `decode_string_array`.

  Objects: an open HDF5 group `h5 ch` (`ch` = its entries as `Output.Node`s), a dataset / sub-group handle `node n`
  (`loc[name]`), what `ds[()]` returns — a number / numeric array for a numeric dataset (`Output.load`), a `bytes` object
  for a variable-length string (`bytes s`, `.decode()` gives the string back), an array of fixed-width byte strings
  (`sarr rows`: `isinstance(·, np.ndarray)`, `dtype.type is np.bytes_`, iterating gives its rows `srow r`, `row[0]` the
  cell `bytes r`) —, the class `class_for_name` finds for a stored type string (`klass nm kws`: name and constructor
  keywords) with `klass.__init__` / its argspec, the modules `np` and `inspect`.  What the model leaves open (what calling
  the class returns, the parameters without default) is the `LWorld`.
-/
import TaurexModel.Gen.SrcC16
import TaurexModel.Output
set_option linter.unusedSectionVars false
set_option linter.unusedVariables false
set_option linter.unusedSimpArgs false

namespace Taurex.C16Src
open Taurex.Gen Taurex.Gen.Dyn
open Taurex.Output (Value Node Arr ArrData Err OfInt load loadKwargs scalarOf)

inductive LObj (α : Type) where
  | h5 (ch : List (String × Node α))
  | node (n : Node α)
  | bytes (s : List Nat)
  | sarr (rows : List (List Nat))
  | srow (r : List Nat)
  | nd (a : Arr α)
  | dtype (isBytes : Bool)
  | np
  | npNdarray
  | npBytes
  | npOther
  | inspect
  | klass (name : List Nat) (kws : List String)
  | init (kws : List String)
  | argspec (kws : List String)
  | fn (name : String)

/-- identity of the singletons the code compares with `is` -/
instance {α : Type} : BEq (LObj α) where
  beq a b :=
    match a, b with
    | .npBytes, .npBytes => true
    | .npNdarray, .npNdarray => true
    | .npOther, .npOther => true
    | .np, .np => true
    | _, _ => false

abbrev LV (α : Type) := Dyn.Val α (LObj α)
abbrev LM := Except Exc

section
variable {α : Type}

/-- a loaded value (`Output.load n`) as the Python value; `enc` represents code-point lists as `String`s -/
def embLV (enc : List Nat → String) : Value α → LV α
  | .int i => .int i
  | .float x => .float x
  | .bool b => .bool b
  | .array a => .obj (.nd a)
  | .str s => .str (enc s)
  | .list l => .list (l.map (fun v => match v with | .str s => .str (enc s) | _ => .none))
  | _ => .none

/-- `ds[()]`: what h5py hands back for a dataset, before the loader decodes it -/
def rawOf (enc : List Nat → String) : Node α → LV α
  | .num a => embLV enc (load (.num a))
  | .vstr s => .obj (.bytes s)
  | .sfix _ rows => .obj (.sarr rows)
  | .group ch => .obj (.h5 ch)

def isGroup : Node α → Bool
  | .group _ => true
  | _ => false

structure LWorld (α : Type) where
  enc : List Nat → String
  /-- the class of a stored type string: its constructor keywords -/
  klassOf : List Nat → Option (List String)
  /-- the leading entries of an argspec's `args` -/
  argsPre : List String → List (LV α)
  /-- constructing the component -/
  call : LObj α → List (LV α) → List (String × LV α) → LM (LV α)

def LWorld.ext (w : LWorld α) : Ext LM α (LObj α) where
  global name :=
    if name = "np" then .ok (.obj .np) else if name = "inspect" then .ok (.obj .inspect) else .ok (.obj (.fn name))
  getattr o name :=
    match o with
    | .np =>
      if name = "ndarray" then .ok (.obj .npNdarray) else if name = "bytes_" then .ok (.obj .npBytes)
      else .error .AttributeError
    | .sarr _ => if name = "dtype" then .ok (.obj (.dtype true)) else .error .AttributeError
    | .nd _ => if name = "dtype" then .ok (.obj (.dtype false)) else .error .AttributeError
    | .dtype b => if name = "type" then .ok (.obj (if b then .npBytes else .npOther)) else .error .AttributeError
    | .klass _ kws => if name = "__init__" then .ok (.obj (.init kws)) else .error .AttributeError
    | _ => .error .AttributeError
  call o args kw :=
    match o with
    | .fn name =>
      if name = "class_for_name" then
        match args with
        | [.obj (.bytes nm)] =>
          match w.klassOf nm with
          | some kws => .ok (.obj (.klass nm kws))
          | none => .error .Exception
        | _ => .error .Exception
      else w.call o args kw
    | _ => w.call o args kw
  method o name args _ :=
    match o with
    | .h5 ch => if name = "keys" then .ok (.list (ch.map (fun e => .str e.1))) else .error .AttributeError
    | .bytes s => if name = "decode" then .ok (.str (w.enc s)) else .error .AttributeError
    | .inspect =>
      if name = "getfullargspec" then
        match args with
        | [.obj (.init kws)] => .ok (.obj (.argspec kws))
        | _ => .error .TypeError
      else .error .AttributeError
    | _ => .error .AttributeError
  isinst v o :=
    match o, v with
    | .npNdarray, .obj (.nd _) => true
    | .npNdarray, .obj (.sarr _) => true
    | _, _ => false
  iter o :=
    match o with
    | .sarr rows => .ok (rows.map (fun r => .obj (.srow r)))
    | _ => .error .TypeError
  truthy _ := .ok true
  op name args :=
    if name = "getitem" then
      match args with
      | [.obj (.h5 ch), .str k] =>
        match ch.lookup k with
        | some n => .ok (.obj (.node n))
        | none => .error .KeyError
      | [.obj (.node n), .tuple []] => .ok (rawOf w.enc n)
      | [.obj (.srow r), .int 0] => .ok (.obj (.bytes r))
      | _ => .error .TypeError
    else if name = "getslice" then
      match args with
      | [.obj (.argspec kws), .none, .int 4] =>
        .ok (.tuple [.list (w.argsPre kws ++ kws.map .str), .none, .none,
                     if kws.isEmpty then .none else .tuple (kws.map (fun _ => .none))])
      | _ => .error .TypeError
    else if name = "method:decode" then .error .AttributeError     -- no built-in value but `bytes` has `.decode`
    else .error .TypeError
  parseFloat _ := none

/-- keyword arguments for the constructor -/
def embKwL (enc : List Nat → String) (c : List (String × Value α)) : List (String × LV α) :=
  c.map (fun kv => (kv.1, embLV enc kv.2))

@[simp] theorem l_pure_ok {β : Type} (x : β) : (pure x : LM β) = .ok x := rfl
@[simp] theorem l_throw_err {β : Type} (e : Exc) : (throw e : LM β) = .error e := rfl
@[simp] theorem l_bind_ok {β γ : Type} (x : β) (f : β → LM γ) : ((Except.ok x : LM β) >>= f) = f x := rfl
@[simp] theorem l_bind_err {β γ : Type} (e : Exc) (f : β → LM γ) : ((Except.error e : LM β) >>= f) = .error e := rfl
@[simp] theorem l_bind_ok_right {β : Type} (x : LM β) : (x >>= fun a => Except.ok a) = x := by cases x <;> rfl
@[simp] theorem l_try_ok {β : Type} (x : β) (h : Exc → LM β) : tryCatch (Except.ok x : LM β) h = .ok x := rfl
@[simp] theorem l_try_err {β : Type} (e : Exc) (h : Exc → LM β) : tryCatch (Except.error e : LM β) h = h e := rfl

/-! ## lemmas -/

section
variable [FloatLike α]

theorem clip_neg' (p n : Nat) (hn : n ≠ 0) : clipIndex (p + n) (-(n : Int)) = p := by
  unfold clipIndex
  have : ¬ (0 : Int) ≤ -(n : Int) := by omega
  simp only [this, if_false, Int.neg_neg, Int.toNat_natCast]
  omega

theorem slice_tail' {β : Type} (pre names : List β) (hn : names ≠ []) :
    sliceList (pre ++ names) (some (-(names.length : Int))) none = names := by
  have : names.length ≠ 0 := by simpa using hn
  simp only [sliceList, List.length_append, clip_neg' _ _ this]
  simp

/-- the dictionary of keyword arguments built so far -/
def encD (w : LWorld α) (acc : List (String × Value α)) : LV α :=
  .dict (acc.map (fun kv => (.str kv.1, embLV w.enc kv.2)))

theorem dictSet_fresh (w : LWorld α) (acc : List (String × Value α)) (k : String) (v : LV α)
    (h : k ∉ acc.map (·.1)) :
    Dyn.dictSet (acc.map (fun kv => ((Dyn.Val.str kv.1 : LV α), embLV w.enc kv.2))) (.str k) v
      = acc.map (fun kv => ((Dyn.Val.str kv.1 : LV α), embLV w.enc kv.2)) ++ [(.str k, v)] := by
  induction acc with
  | nil => rfl
  | cons x t ih =>
    have hx : x.1 ≠ k := fun he => h (by simp [he])
    have ht : k ∉ t.map (·.1) := fun hm => h (by simp [hm])
    have hb : (x.1 == k) = false := by simp [hx]
    simp [Dyn.dictSet, Dyn.Val.beq, hb, ih ht]

/-- the keyword-collecting loop of the loader, given what one pass does -/
theorem forM_load (w : LWorld α) (ch : List (String × Node α)) (all : List String) (body : LV α → LV α → LM (LV α))
    (hb : ∀ acc kw, kw ∈ all → body (encD w acc) (.str kw) =
      match ch.lookup kw with
      | some n => Dyn.setItem w.ext (encD w acc) (.str kw) (embLV w.enc (load n))
      | none => .ok (encD w acc)) :
    ∀ (rest : List String) (acc : List (String × Value α)), rest.Nodup → (∀ k ∈ rest, k ∈ all) →
      (∀ k ∈ acc.map (·.1), k ∉ rest) →
      Dyn.forM (rest.map (fun k => (Dyn.Val.str k : LV α))) (encD w acc) body
        = .ok (encD w (acc ++ loadKwargs ch rest))
  | [], acc, _, _, _ => by simp [Dyn.forM, loadKwargs]
  | kw :: rest, acc, hn, hall, hfresh => by
    have hn' : rest.Nodup := (List.nodup_cons.mp hn).2
    have hkw : kw ∉ rest := (List.nodup_cons.mp hn).1
    simp only [List.map_cons, Dyn.forM, hb acc kw (hall kw List.mem_cons_self), loadKwargs]
    cases hl : ch.lookup kw with
    | none =>
      simp only [l_bind_ok]
      exact forM_load w ch all body hb rest acc hn' (fun k hk => hall k (List.mem_cons_of_mem _ hk))
        (fun k hk hr => hfresh k hk (List.mem_cons_of_mem _ hr))
    | some n =>
      have hk : kw ∉ acc.map (·.1) := fun hm => hfresh kw hm List.mem_cons_self
      simp only [encD, Dyn.setItem, Dyn.Val.hashable, if_true, l_pure_ok, l_bind_ok, dictSet_fresh w acc kw _ hk]
      have := forM_load w ch all body hb rest (acc ++ [(kw, load n)]) hn'
        (fun k hk => hall k (List.mem_cons_of_mem _ hk))
        (by
          intro k hk hr
          simp only [List.map_append, List.map_cons, List.map_nil, List.mem_append, List.mem_singleton] at hk
          rcases hk with hk | hk
          · exact hfresh k hk (List.mem_cons_of_mem _ hr)
          · subst hk; exact hkw hr)
      simp only [encD, List.map_append, List.map_cons, List.map_nil, List.append_assoc, List.cons_append,
        List.nil_append] at this ⊢
      exact this


theorem contains_keys (w : LWorld α) (ch : List (String × Node α)) (kw : String) :
    Dyn.contains w.ext (Dyn.Val.str kw) (Dyn.Val.list (ch.map (fun e => (Dyn.Val.str e.1 : LV α))))
      = .ok (ch.lookup kw).isSome := by
  simp only [Dyn.contains, l_pure_ok, List.any_map, Function.comp_def, Dyn.Val.beq]
  congr 1
  induction ch with
  | nil => rfl
  | cons x t ih =>
    obtain ⟨k, n⟩ := x
    simp only [List.any_cons, List.lookup_cons, ih]
    by_cases h : k = kw
    · subst h; simp
    · have h1 : (k == kw) = false := by simp [h]
      have h2 : (kw == k) = false := by simp [Ne.symm h]
      simp [h1, h2]


end

end
end Taurex.C16Src
