/-
  C16 — source tie, the loader: the oracle for `load_generic_profile_from_hdf5`, `get_klass_args`, `decode_string_array`
  and the per-component loaders (`load_temperature_from_hdf5`, …, `load_chemistry_from_hdf5`, `load_model_from_hdf5`).

  Objects: an open HDF5 group `h5 ch` (`ch` = its entries as `Output.Node`s; `loc[name]` of a sub-group is again such a
  group object, of a dataset a dataset handle `node n`), what `ds[()]` returns — a number / numeric array for a numeric
  dataset (`Output.load`), a `bytes` object for a variable-length string (`bytes s`, `.decode()` gives the string back), an
  array of fixed-width byte strings (`sarr rows`: `isinstance(·, np.ndarray)`, `dtype.type is np.bytes_`, iterating gives
  its rows `srow r`, `row[0]` the cell `bytes r`) —, the class `class_for_name` finds for a type string (`klass nm kws`:
  name and constructor keywords; the string may be the stored `bytes` or a `str` the caller passes) with `klass.__init__` /
  its argspec, the modules `np` and `inspect`, the class `h5py.Group`, and the objects the constructor calls return
  (`inst i`).  What the model leaves open (what calling a class returns, the parameters without default, which classes
  an object is an instance of, the data attributes of a constructed object) is the `LWorld`.
  The monad is `Dyn.Eff (LLog α)`: the state is the log of the method calls the loader makes ON the objects it constructed
  (`chemistry.addGas(gas)`, `model.add_contribution(c)`): `(object, method, arguments)` in call order.
-/
import Proofs.C16SrcStore
set_option linter.unusedSectionVars false
set_option linter.unusedVariables false
set_option linter.unusedSimpArgs false

namespace Taurex.C16Src
open Taurex.Gen Taurex.Gen.Dyn
open Taurex.Output (Value Node Arr ArrData Err OfInt load loadKwargs scalarOf)

inductive LObj (α : Type) where
  | h5 (ch : List (String × Node α))
  | node (n : Node α)
  | bytes (s : List Nat)
  | sarr (rows : List (List Nat))
  | srow (r : List Nat)
  | nd (a : Arr α)
  | dtype (isBytes : Bool)
  | np
  | npNdarray
  | npBytes
  | npOther
  | inspect
  | klass (name : List Nat) (kws : List String)
  | init (kws : List String)
  | argspec (kws : List String)
  | fn (name : String)
  /-- an object a constructor call returned (identified by a number the world chooses) -/
  | inst (id : Nat)
  /-- the class `h5py.Group` -/
  | h5Group
  /-- an open `h5py.File` (its root group's entries); entering it gives the root group -/
  | file (root : List (String × Node α))
  /-- a 1-D float array (what `dataset[...]` returns for a 1-D float dataset), a stack of rows (`np.vstack`) and its
      transpose (`.T`) -/
  | vec (l : List α)
  | mat (rows : List (List α))
  | matT (rows : List (List α))

/-- identity of the singletons the code compares with `is` -/
instance {α : Type} : BEq (LObj α) where
  beq a b :=
    match a, b with
    | .npBytes, .npBytes => true
    | .npNdarray, .npNdarray => true
    | .npOther, .npOther => true
    | .np, .np => true
    | _, _ => false

abbrev LV (α : Type) := Dyn.Val α (LObj α)
/-- what the loader did to the objects it constructed: (object, method, arguments) in call order -/
abbrev LLog (α : Type) := List (Nat × String × List (LV α))
abbrev LM (α : Type) := Dyn.Eff (LLog α)

section
variable {α : Type}

/-- a loaded value (`Output.load n`) as the Python value; `enc` represents code-point lists as `String`s -/
def embLV (enc : List Nat → String) : Value α → LV α
  | .int i => .int i
  | .float x => .float x
  | .bool b => .bool b
  | .array a => .obj (.nd a)
  | .str s => .str (enc s)
  | .list l => .list (l.map (fun v => match v with | .str s => .str (enc s) | _ => .none))
  | _ => .none

/-- `ds[()]`: what h5py hands back for a dataset, before the loader decodes it -/
def rawOf (enc : List Nat → String) : Node α → LV α
  | .num a => embLV enc (load (.num a))
  | .vstr s => .obj (.bytes s)
  | .sfix _ rows => .obj (.sarr rows)
  | .group ch => .obj (.h5 ch)

def isGroup : Node α → Bool
  | .group _ => true
  | _ => false

/-- `loc[name]`: a sub-group is again a group object, a dataset a dataset handle -/
def nodeObj : Node α → LObj α
  | .group ch => .h5 ch
  | n => .node n

structure LWorld (α : Type) where
  enc : List Nat → String
  dec : String → List Nat
  /-- the class of a stored type string: its constructor keywords -/
  klassOf : List Nat → Option (List String)
  /-- the leading entries of an argspec's `args` -/
  argsPre : List String → List (LV α)
  /-- constructing the component -/
  call : LObj α → List (LV α) → List (String × LV α) → LM α (LV α)
  /-- `isinstance(v, C)` for the class the code imports under the name `C` -/
  isA : LV α → String → Bool
  /-- a data attribute of a constructed object -/
  attrOf : Nat → String → Option (LV α)
  /-- the file a path names (`h5py.File(path, 'r')`); `none`: it cannot be opened -/
  fileOf : String → Option (List (String × Node α))
  /-- what numpy returns for `10000/array` and the module function `wnwidth_to_wlwidth` for two arrays -/
  div10000 : List α → List α
  wlwidth : List α → List α → List α

def LWorld.ext (w : LWorld α) : Ext (LM α) α (LObj α) where
  global name :=
    if name = "np" then pure (.obj .np) else if name = "inspect" then pure (.obj .inspect) else pure (.obj (.fn name))
  getattr o name :=
    match o with
    | .np =>
      if name = "ndarray" then pure (.obj .npNdarray) else if name = "bytes_" then pure (.obj .npBytes)
      else throw .AttributeError
    | .sarr _ => if name = "dtype" then pure (.obj (.dtype true)) else throw .AttributeError
    | .nd _ => if name = "dtype" then pure (.obj (.dtype false)) else throw .AttributeError
    | .dtype b => if name = "type" then pure (.obj (if b then .npBytes else .npOther)) else throw .AttributeError
    | .klass _ kws => if name = "__init__" then pure (.obj (.init kws)) else throw .AttributeError
    | .fn m => if m = "h5py" ∧ name = "Group" then pure (.obj .h5Group) else throw .AttributeError
    | .mat rows => if name = "T" then pure (.obj (.matT rows)) else throw .AttributeError
    | .inst i =>
      match w.attrOf i name with
      | some v => pure v
      | none => throw .AttributeError
    | _ => throw .AttributeError
  call o args kw :=
    match o with
    | .fn name =>
      if name = "class_for_name" then
        match args with
        | [.obj (.bytes nm)] =>
          match w.klassOf nm with
          | some kws => pure (.obj (.klass nm kws))
          | none => throw .Exception
        | [.str s] =>
          match w.klassOf (w.dec s) with
          | some kws => pure (.obj (.klass (w.dec s) kws))
          | none => throw .Exception
        | _ => throw .Exception
      else if name = "wnwidth_to_wlwidth" then
        match args with
        | [.obj (.vec wn), .obj (.vec wd)] => pure (.obj (.vec (w.wlwidth wn wd)))
        | _ => throw .TypeError
      else w.call o args kw
    | _ => w.call o args kw
  method o name args _ :=
    match o with
    | .h5 ch => if name = "keys" then pure (.list (ch.map (fun e => .str e.1))) else throw .AttributeError
    | .bytes s => if name = "decode" then pure (.str (w.enc s)) else throw .AttributeError
    | .inspect =>
      if name = "getfullargspec" then
        match args with
        | [.obj (.init kws)] => pure (.obj (.argspec kws))
        | _ => throw .TypeError
      else throw .AttributeError
    | .inst i => fun s => (.ok .none, s ++ [(i, name, args)])
    | .fn m =>
      if m = "h5py" ∧ name = "File" then
        match args with
        | [.str path, .str "r"] =>
          match w.fileOf path with
          | some root => pure (.obj (.file root))
          | none => throw .OSError
        | _ => throw .TypeError
      else throw .AttributeError
    | .file root =>
      if name = "__enter__" then pure (.obj (.h5 root))
      else if name = "__exit__" then pure .none          -- closes the file; never suppresses an exception
      else throw .AttributeError
    | .np =>
      if name = "vstack" then
        match args with
        | [.list [.obj (.vec a), .obj (.vec b), .obj (.vec c), .obj (.vec d)]] => pure (.obj (.mat [a, b, c, d]))
        | _ => throw .ValueError
      else throw .AttributeError
    | _ => throw .AttributeError
  isinst v o :=
    match o, v with
    | .npNdarray, .obj (.nd _) => true
    | .npNdarray, .obj (.sarr _) => true
    | .h5Group, .obj (.h5 _) => true
    | .fn name, v => w.isA v name
    | _, _ => false
  iter o :=
    match o with
    | .sarr rows => pure (rows.map (fun r => .obj (.srow r)))
    | .node (.sfix _ rows) => pure (rows.map (fun r => .obj (.srow r)))      -- iterating the h5py dataset itself
    | _ => throw .TypeError
  truthy _ := pure true
  op name args :=
    if name = "getitem" then
      match args with
      | [.obj (.h5 ch), .str k] =>
        match ch.lookup k with
        | some n => pure (.obj (nodeObj n))
        | none => throw .KeyError
      | [.obj (.node n), .tuple []] => pure (rawOf w.enc n)
      | [.obj (.srow r), .int 0] => pure (.obj (.bytes r))
      | _ => throw .TypeError
    else if name = "getslice" then
      match args with
      | [.obj (.argspec kws), .none, .int 4] =>
        pure (.tuple [.list (w.argsPre kws ++ kws.map .str), .none, .none,
                     if kws.isEmpty then .none else .tuple (kws.map (fun _ => .none))])
      | _ => throw .TypeError
    else if name = "method:decode" then throw .AttributeError     -- no built-in value but `bytes` has `.decode`
    else if name = "getitem[...]" then
      match args with
      | [.obj (.node (.num ⟨[_], .floats l⟩))] => pure (.obj (.vec l))
      | _ => throw .TypeError
    else if name = "/" then
      match args with
      | [.int 10000, .obj (.vec l)] => pure (.obj (.vec (w.div10000 l)))
      | _ => throw .TypeError
    else throw .TypeError
  parseFloat _ := none

/-- keyword arguments for the constructor -/
def embKwL (enc : List Nat → String) (c : List (String × Value α)) : List (String × LV α) :=
  c.map (fun kv => (kv.1, embLV enc kv.2))

@[simp] theorem l_bind_ok {β γ : Type} (x : β) (f : β → LM α γ) : ((pure x : LM α β) >>= f) = f x := rfl
@[simp] theorem l_bind_err {β γ : Type} (e : Exc) (f : β → LM α γ) : ((throw e : LM α β) >>= f) = throw e := rfl
@[simp] theorem l_bind_ok_right {β : Type} (x : LM α β) : (x >>= fun a => pure a) = x := by
  funext s
  rw [eff_bind]
  rcases x s with ⟨r, s'⟩
  cases r <;> rfl
@[simp] theorem l_try_ok {β : Type} (x : β) (h : Exc → LM α β) : tryCatch (pure x : LM α β) h = pure x := rfl
@[simp] theorem l_try_err {β : Type} (e : Exc) (h : Exc → LM α β) : tryCatch (throw e : LM α β) h = h e := rfl

/-! ## lemmas -/

section
variable [FloatLike α]

theorem clip_neg' (p n : Nat) (hn : n ≠ 0) : clipIndex (p + n) (-(n : Int)) = p := by
  unfold clipIndex
  have : ¬ (0 : Int) ≤ -(n : Int) := by omega
  simp only [this, if_false, Int.neg_neg, Int.toNat_natCast]
  omega

theorem slice_tail' {β : Type} (pre names : List β) (hn : names ≠ []) :
    sliceList (pre ++ names) (some (-(names.length : Int))) none = names := by
  have : names.length ≠ 0 := by simpa using hn
  simp only [sliceList, List.length_append, clip_neg' _ _ this]
  simp

/-- the pre-made keyword arguments (`premade_dict`: objects) as dictionary entries -/
def preD (pre : List (String × LV α)) : List (LV α × LV α) := pre.map (fun kv => (.str kv.1, kv.2))

/-- the dictionary of keyword arguments built so far: the pre-made ones, then the loaded ones -/
def encD (w : LWorld α) (pre : List (String × LV α)) (acc : List (String × Value α)) : LV α :=
  .dict (preD pre ++ acc.map (fun kv => (.str kv.1, embLV w.enc kv.2)))

theorem dictSet_fresh (w : LWorld α) (pre : List (String × LV α)) (acc : List (String × Value α)) (k : String)
    (v : LV α) (hp : k ∉ pre.map (·.1)) (h : k ∉ acc.map (·.1)) :
    Dyn.dictSet (preD pre ++ acc.map (fun kv => ((Dyn.Val.str kv.1 : LV α), embLV w.enc kv.2))) (.str k) v
      = preD pre ++ acc.map (fun kv => ((Dyn.Val.str kv.1 : LV α), embLV w.enc kv.2)) ++ [(.str k, v)] := by
  induction pre with
  | nil =>
    simp only [preD, List.map_nil, List.nil_append]
    induction acc with
    | nil => rfl
    | cons x t ih =>
      have hx : x.1 ≠ k := fun he => h (by simp [he])
      have ht : k ∉ t.map (·.1) := fun hm => h (by simp [hm])
      have hb : (x.1 == k) = false := by simp [hx]
      simp [Dyn.dictSet, Dyn.Val.beq, hb, ih ht]
  | cons x t ih =>
    have hx : x.1 ≠ k := fun he => hp (by simp [he])
    have ht : k ∉ t.map (·.1) := fun hm => hp (by simp [hm])
    have hb : (x.1 == k) = false := by simp [hx]
    have := ih ht
    simp only [preD] at this
    simp [preD, Dyn.dictSet, Dyn.Val.beq, hb, this]

/-- the keyword-collecting loop of the loader, given what one pass does -/
theorem forM_load (w : LWorld α) (ch : List (String × Node α)) (all : List String) (pre : List (String × LV α))
    (body : LV α → LV α → LM α (LV α))
    (hb : ∀ acc kw, kw ∈ all → body (encD w pre acc) (.str kw) =
      match ch.lookup kw with
      | some n => Dyn.setItem w.ext (encD w pre acc) (.str kw) (embLV w.enc (load n))
      | none => pure (encD w pre acc))
    (hpk : ∀ kw ∈ all, (ch.lookup kw).isSome = true → kw ∉ pre.map (·.1)) :
    ∀ (rest : List String) (acc : List (String × Value α)), rest.Nodup → (∀ k ∈ rest, k ∈ all) →
      (∀ k ∈ acc.map (·.1), k ∉ rest) →
      Dyn.forM (rest.map (fun k => (Dyn.Val.str k : LV α))) (encD w pre acc) body
        = pure (encD w pre (acc ++ loadKwargs ch rest))
  | [], acc, _, _, _ => by simp [Dyn.forM, loadKwargs]
  | kw :: rest, acc, hn, hall, hfresh => by
    have hn' : rest.Nodup := (List.nodup_cons.mp hn).2
    have hkw : kw ∉ rest := (List.nodup_cons.mp hn).1
    simp only [List.map_cons, Dyn.forM, hb acc kw (hall kw List.mem_cons_self), loadKwargs]
    cases hl : ch.lookup kw with
    | none =>
      simp only [l_bind_ok]
      exact forM_load w ch all pre body hb hpk rest acc hn' (fun k hk => hall k (List.mem_cons_of_mem _ hk))
        (fun k hk hr => hfresh k hk (List.mem_cons_of_mem _ hr))
    | some n =>
      have hk : kw ∉ acc.map (·.1) := fun hm => hfresh kw hm List.mem_cons_self
      have hp : kw ∉ pre.map (·.1) := hpk kw (hall kw List.mem_cons_self) (by rw [hl]; rfl)
      simp only [encD, Dyn.setItem, Dyn.Val.hashable, if_true, l_bind_ok, dictSet_fresh w pre acc kw _ hp hk]
      have := forM_load w ch all pre body hb hpk rest (acc ++ [(kw, load n)]) hn'
        (fun k hk => hall k (List.mem_cons_of_mem _ hk))
        (by
          intro k hk hr
          simp only [List.map_append, List.map_cons, List.map_nil, List.mem_append, List.mem_singleton] at hk
          rcases hk with hk | hk
          · exact hfresh k hk (List.mem_cons_of_mem _ hr)
          · subst hk; exact hkw hr)
      simp only [encD, List.map_append, List.map_cons, List.map_nil, List.append_assoc, List.cons_append,
        List.nil_append] at this ⊢
      exact this

theorem contains_keys (w : LWorld α) (ch : List (String × Node α)) (kw : String) :
    Dyn.contains w.ext (Dyn.Val.str kw) (Dyn.Val.list (ch.map (fun e => (Dyn.Val.str e.1 : LV α))))
      = pure (ch.lookup kw).isSome := by
  simp only [Dyn.contains, List.any_map, Function.comp_def, Dyn.Val.beq]
  congr 1
  induction ch with
  | nil => rfl
  | cons x t ih =>
    obtain ⟨k, n⟩ := x
    simp only [List.any_cons, List.lookup_cons, ih]
    by_cases h : k = kw
    · subst h; simp
    · have h1 : (k == kw) = false := by simp [h]
      have h2 : (kw == k) = false := by simp [Ne.symm h]
      simp [h1, h2]

theorem starStar_pre (w : LWorld α) (pre : List (String × LV α)) (c : List (String × Value α)) :
    (Dyn.starStar (Dyn.Val.dict (preD pre ++ c.map (fun kv => ((Dyn.Val.str kv.1 : LV α), embLV w.enc kv.2)))) : LM α _)
      = pure (pre ++ embKwL w.enc c) := by
  simp only [Dyn.starStar, embKwL, preD]
  induction pre with
  | nil =>
    simp only [List.map_nil, List.nil_append]
    induction c with
    | nil => rfl
    | cons kv t ih =>
      simp only [List.map_cons, Dyn.mapM, l_bind_ok] at ih ⊢
      rw [ih]; rfl
  | cons kv t ih =>
    simp only [List.map_cons, List.cons_append, Dyn.mapM, l_bind_ok] at ih ⊢
    rw [ih]; rfl

/-- how `load_generic_profile_from_hdf5` finds the class name: `profile_type=None` — the stored string under
    `identifier` —, or the `profile_type` the caller passes -/
def TypeFrom (w : LWorld α) (ch : List (String × Node α)) (identifier pt : LV α) (nm : List Nat) : Prop :=
  (pt = .none ∧ ∃ k, identifier = .str k ∧ ch.lookup k = some (.vstr nm)) ∨ (∃ s, pt = .str s ∧ w.dec s = nm)

/-- the `premade_dict` argument: `None`, or a non-empty dictionary of string-keyed entries -/
def Premade (premade : LV α) (pre : List (String × LV α)) : Prop :=
  (premade = .none ∧ pre = []) ∨ (premade = .dict (preD pre) ∧ pre ≠ [])

/-- `loc[name]` for a stored sub-group is the group object of its entries -/
theorem getItem_group (w : LWorld α) (top ch : List (String × Node α)) (k : String)
    (h : top.lookup k = some (.group ch)) :
    Dyn.getItem w.ext (Dyn.Val.obj (LObj.h5 top)) (Dyn.Val.str k) = pure (.obj (.h5 ch)) := by
  simp only [Dyn.getItem, LWorld.ext, if_true, h, nodeObj]

/-- a component group as `load_generic_profile_from_hdf5` needs it: the type string names a class whose constructor
    keywords are distinct and none of them is stored as a sub-group -/
structure Reloadable (w : LWorld α) (ch : List (String × Node α)) (nm : List Nat) (kws : List String) : Prop where
  klass : w.klassOf nm = some kws
  nodup : kws.Nodup
  flat : ∀ kw ∈ kws, ∀ n, ch.lookup kw = some n → isGroup n = false

/-! ### the chemistry loader -/

theorem eff_bind_assoc {σ β γ δ : Type} (x : Eff σ β) (f : β → Eff σ γ) (g : γ → Eff σ δ) :
    ((x >>= f) >>= g) = x >>= fun a => f a >>= g := by
  funext s
  rw [eff_bind, eff_bind, eff_bind]
  rcases x s with ⟨r, s'⟩
  cases r with
  | error e => rfl
  | ok a => simp only [eff_bind]

/-- `forM` with pointwise equal bodies -/
theorem forM_congr {m : Type → Type} [Monad m] {σ ι : Type} (f g : σ → ι → m σ) :
    ∀ (l : List ι) (s : σ), (∀ x ∈ l, ∀ st, f st x = g st x) → Dyn.forM l s f = Dyn.forM l s g
  | [], _, _ => rfl
  | x :: xs, s, h => by
    simp only [Dyn.forM, h x List.mem_cons_self]
    congr 1
    funext s'
    exact forM_congr f g xs s' (fun y hy st => h y (List.mem_cons_of_mem _ hy) st)

/-- the reload of the gas profile stored in the group `mol` of the chemistry group: the class of its stored `gas_type`
    called with `Output.loadKwargs` (what `load_generic_profile_from_hdf5` collects); `KeyError` when there is no such
    entry (`loc[molecule]`) -/
def gasCall (w : LWorld α) (chem : List (String × Node α)) (mol : String) : LM α (LV α) :=
  match chem.lookup mol with
  | some (.group gch) =>
    match gch.lookup "gas_type" with
    | some (.vstr gnm) =>
      match w.klassOf gnm with
      | some gkws => w.call (.klass gnm gkws) [] (embKwL w.enc (loadKwargs gch gkws))
      | none => throw .Exception
    | _ => throw .KeyError
  | _ => throw .KeyError

/-- the entry `mol` of the chemistry group is absent, or a gas group the loader accepts -/
def GasGood (w : LWorld α) (chem : List (String × Node α)) (mol : String) : Prop :=
  chem.lookup mol = none ∨ ∃ gch gnm gkws, chem.lookup mol = some (.group gch) ∧
    gch.lookup "gas_type" = some (.vstr gnm) ∧ Reloadable w gch gnm gkws

theorem getItem_h5 (w : LWorld α) (ch : List (String × Node α)) (k : String) :
    Dyn.getItem w.ext (Dyn.Val.obj (LObj.h5 ch)) (Dyn.Val.str k)
      = match ch.lookup k with | some n => pure (.obj (nodeObj n)) | none => throw .KeyError := by
  simp only [Dyn.getItem, LWorld.ext]; rfl

/-- one pass of the loops of `load_chemistry_from_hdf5`: a stored gas name that is not one of the fill gases of the
    reloaded chemistry is reloaded from its group and added -/
def addGasStep (w : LWorld α) (chem : List (String × Node α)) (chemistry : LV α) (mol : String) : LM α Unit := do
  let fill ← Dyn.getAttr w.ext chemistry "_fill_gases"
  let c ← Dyn.contains w.ext (.str mol) fill
  if !c then do
    let g ← gasCall w chem mol
    let _ ← Dyn.callMethod w.ext chemistry "addGas" [g] []
    pure ()
  else pure ()

/-- `for mol in names: …` -/
def addGases (w : LWorld α) (chem : List (String × Node α)) (chemistry : LV α) (rows : List (List Nat)) : LM α Unit :=
  Dyn.forM (rows.map w.enc) () (fun _ mol => addGasStep w chem chemistry mol)

/-- what `load_chemistry_from_hdf5` does with the group `Chemistry` (`chem`): reload the chemistry itself, then — for a
    `TaurexChemistry` — every stored active and inactive gas that is not a fill gas -/
def chemistrySpec (w : LWorld α) (chem : List (String × Node α)) (nm : List Nat) (kws : List String)
    (act inact : List (List Nat)) : LM α (LV α) := do
  let chemistry ← w.call (.klass nm kws) [] (embKwL w.enc (loadKwargs chem kws))
  if w.isA chemistry "TaurexChemistry" then do
    addGases w chem chemistry act
    addGases w chem chemistry inact
    pure chemistry
  else pure chemistry

theorem forM_map {m : Type → Type} [Monad m] {σ ι κ : Type} (g : ι → κ) (f : σ → κ → m σ) :
    ∀ (l : List ι) (s : σ), Dyn.forM (l.map g) s f = Dyn.forM l s (fun st x => f st (g x))
  | [], _ => rfl
  | x :: xs, s => by
    simp only [List.map_cons, Dyn.forM]
    congr 1
    funext s'
    exact forM_map g f xs s'

/-! ### the model loader -/

theorem lookup_of_mem_nodup {β : Type} : ∀ {l : List (String × β)} {k : String} {v : β},
    (l.map (·.1)).Nodup → (k, v) ∈ l → l.lookup k = some v
  | [], _, _, _, h => by cases h
  | (k', v') :: t, k, v, hn, h => by
    simp only [List.map_cons, List.nodup_cons] at hn
    simp only [List.mem_cons, Prod.mk.injEq] at h
    rcases h with ⟨rfl, rfl⟩ | h
    · simp [List.lookup_cons]
    · have hne : k ≠ k' := by
        intro he; subst he
        exact hn.1 (List.mem_map.mpr ⟨(k, v), h, rfl⟩)
      have : (k == k') = false := by simpa using hne
      simp only [List.lookup_cons, this]
      exact lookup_of_mem_nodup hn.2 h

/-- the reload of the contribution stored in the group `key` of `Contributions`: the class NAMED LIKE THE GROUP called with
    `Output.loadKwargs` of the group -/
def contribCall (w : LWorld α) (contribs : List (String × Node α)) (key : String) : LM α (LV α) :=
  match contribs.lookup key with
  | some (.group cch) =>
    match w.klassOf (w.dec key) with
    | some ckws => w.call (.klass (w.dec key) ckws) [] (embKwL w.enc (loadKwargs cch ckws))
    | none => throw .Exception
  | _ => throw .KeyError

/-- one pass of the contribution loop of `load_model_from_hdf5`: an entry of `Contributions` that is a group is reloaded and
    added to the model; a dataset is skipped -/
def contribStep (w : LWorld α) (contribs : List (String × Node α)) (model : LV α) (e : String × Node α) : LM α Unit :=
  match e.2 with
  | .group _ => do
    let c ← contribCall w contribs e.1
    let _ ← Dyn.callMethod w.ext model "add_contribution" [c] []
    pure ()
  | _ => pure ()

/-- the groups of a stored model that `load_model_from_hdf5` reads: the entries of `ModelParameters` -/
structure ModelFile (w : LWorld α) (mp : List (String × Node α)) where
  chem : List (String × Node α)
  cnm : List Nat
  ckws : List String
  wa : Nat
  wi : Nat
  act : List (List Nat)
  inact : List (List Nat)
  press : List (String × Node α)
  pnm : List Nat
  pkws : List String
  temp : List (String × Node α)
  tnm : List Nat
  tkws : List String
  planet : List (String × Node α)
  plnm : List Nat
  plkws : List String
  star : List (String × Node α)
  snm : List Nat
  skws : List String
  mnm : List Nat
  mkws : List String
  contribs : List (String × Node α)
  hchem : mp.lookup "Chemistry" = some (.group chem)
  hctype : chem.lookup "chemistry_type" = some (.vstr cnm)
  hcr : Reloadable w chem cnm ckws
  hact : chem.lookup "active_gases" = some (.sfix wa act)
  hinact : chem.lookup "inactive_gases" = some (.sfix wi inact)
  hgas : ∀ r ∈ act ++ inact, GasGood w chem (w.enc r)
  hpress : mp.lookup "Pressure" = some (.group press)
  hptype : press.lookup "pressure_type" = some (.vstr pnm)
  hpr : Reloadable w press pnm pkws
  htemp : mp.lookup "Temperature" = some (.group temp)
  httype : temp.lookup "temperature_type" = some (.vstr tnm)
  htr : Reloadable w temp tnm tkws
  hplanet : mp.lookup "Planet" = some (.group planet)
  hplnm : w.dec "Planet" = plnm
  hplr : Reloadable w planet plnm plkws
  hstar : mp.lookup "Star" = some (.group star)
  hstype : star.lookup "star_type" = some (.vstr snm)
  hsr : Reloadable w star snm skws
  hmtype : mp.lookup "model_type" = some (.vstr mnm)
  hmr : Reloadable w mp mnm mkws
  hmpk : ∀ kw ∈ mkws, (mp.lookup kw).isSome = true →
    kw ∉ ["planet", "star", "chemistry", "temperature_profile", "pressure_profile"]
  hcontribs : mp.lookup "Contributions" = some (.group contribs)
  hcnodup : (contribs.map (·.1)).Nodup
  hcgood : ∀ key cch, (key, Node.group cch) ∈ contribs → ∃ kws, Reloadable w cch (w.dec key) kws

/-- what `load_model_from_hdf5` does with the group `ModelParameters`: the five components reloaded (chemistry with its
    gases, pressure, temperature, planet, star), the model class of the stored `model_type` called with them under the
    keywords `planet, star, chemistry, temperature_profile, pressure_profile` followed by its own stored keywords, then
    every sub-group of `Contributions` reloaded by the class named like it and added, in file order -/
def modelSpec (w : LWorld α) (mp : List (String × Node α)) (f : ModelFile w mp) : LM α (LV α) := do
  let chemistry ← chemistrySpec w f.chem f.cnm f.ckws f.act f.inact
  let pressure ← w.call (.klass f.pnm f.pkws) [] (embKwL w.enc (loadKwargs f.press f.pkws))
  let temperature ← w.call (.klass f.tnm f.tkws) [] (embKwL w.enc (loadKwargs f.temp f.tkws))
  let planet ← w.call (.klass f.plnm f.plkws) [] (embKwL w.enc (loadKwargs f.planet f.plkws))
  let star ← w.call (.klass f.snm f.skws) [] (embKwL w.enc (loadKwargs f.star f.skws))
  let model ← w.call (.klass f.mnm f.mkws) []
    ([("planet", planet), ("star", star), ("chemistry", chemistry), ("temperature_profile", temperature),
      ("pressure_profile", pressure)] ++ embKwL w.enc (loadKwargs mp f.mkws))
  let _ ← Dyn.forM f.contribs () (fun _ e => contribStep w f.contribs model e)
  pure model

/-- a `with` block whose context manager never suppresses an exception (`__exit__` returns a false value) and whose body
    is the computation `x`: what follows (`K`) continues with the body's result -/
theorem with_noexit {σ β γ : Type} (x : Eff σ β) (K : Option β → Eff σ γ) :
    ((tryCatch (x >>= fun a => pure (some a)) (fun e => (throw e : Eff σ (Option β)))) >>= K)
      = x >>= fun a => K (some a) := by
  funext s
  simp only [eff_bind, eff_try]
  rcases x s with ⟨r, s'⟩
  cases r <;> rfl

end

end
end Taurex.C16Src
