/-
  Helper definitions and lemmas for the C09 source tie (`Props/C09Src.lean`): the documented behaviour of `np.argsort`
  as a stable sorting permutation (`argsortStable`), and the fact that gathering `x` and `w` through it is the model's
  sort of the pairs `(x[i], w[i])` (`Posterior.sortPairs`).  Core only (no Mathlib).
-/
import TaurexModel.Posterior
set_option linter.unusedSectionVars false
set_option linter.unusedVariables false

namespace Taurex.C09Src
open Taurex.Posterior

section
variable {α : Type} [LT α] [DecidableLT α]
variable {β γ : Type}

/-- stable insertion by a key (the scheme of `Posterior.insertBy`, for any element type) -/
def insertG (key : β → α) (p : β) : List β → List β
  | [] => [p]
  | q :: qs => if key q < key p then q :: insertG key p qs else p :: q :: qs

/-- stable insertion sort by a key -/
def sortG (key : β → α) : List β → List β
  | [] => []
  | p :: ps => insertG key p (sortG key ps)

/-- `np.argsort(x)`: the positions of `x` in the order of the values found there (ties keep their input order) -/
def argsortStable (x : List α) : List Nat := (sortG Prod.fst x.zipIdx).map Prod.snd

theorem insertBy_eq (p : α × α) (l : List (α × α)) : insertBy p l = insertG Prod.fst p l := by
  induction l with
  | nil => rfl
  | cons q qs ih => simp only [insertBy, insertG, ih]

theorem sortPairs_eq (l : List (α × α)) : sortPairs l = sortG Prod.fst l := by
  induction l with
  | nil => rfl
  | cons p ps ih => simp only [sortPairs, sortG, ih, insertBy_eq]

/-- sorting commutes with any map that preserves the key -/
theorem insertG_map (key : β → α) (key' : γ → α) (f : β → γ) (h : ∀ b, key' (f b) = key b) (p : β) (l : List β) :
    (insertG key p l).map f = insertG key' (f p) (l.map f) := by
  induction l with
  | nil => rfl
  | cons q qs ih =>
    simp only [insertG, List.map_cons, h]
    split
    · simp only [List.map_cons, ih]
    · rfl

theorem sortG_map (key : β → α) (key' : γ → α) (f : β → γ) (h : ∀ b, key' (f b) = key b) (l : List β) :
    (sortG key l).map f = sortG key' (l.map f) := by
  induction l with
  | nil => rfl
  | cons p ps ih => simp only [sortG, List.map_cons, insertG_map key key' f h, ih]

/-- pairing every element with the entry of `w` at its position is `zip` -/
theorem zipIdx_map_getD (d : γ) (x : List β) (w : List γ) (k : Nat) (h : k + x.length ≤ w.length) :
    (x.zipIdx k).map (fun p => (p.1, w.getD p.2 d)) = x.zip (w.drop k) := by
  induction x generalizing k with
  | nil => simp
  | cons a x ih =>
    have hk : k < w.length := by simp at h; omega
    rw [List.drop_eq_getElem_cons hk]
    simp only [List.zipIdx_cons, List.map_cons, List.zip_cons_cons]
    rw [ih (k + 1) (by simp at h ⊢; omega)]
    simp [List.getD, List.getElem?_eq_getElem hk]

/-- gathering `w` through the argsort of `x` gives the second components of the sorted pairs -/
theorem gather_snd (d : α) (x w : List α) (h : x.length ≤ w.length) :
    (argsortStable x).map (fun i => w.getD i d) = (sortPairs (x.zip w)).map Prod.snd := by
  unfold argsortStable
  rw [sortPairs_eq, List.map_map]
  have h1 := sortG_map (α := α) Prod.fst Prod.fst (fun p : α × Nat => (p.1, w.getD p.2 d)) (fun _ => rfl) x.zipIdx
  have h2 := zipIdx_map_getD d x w 0 (by omega)
  rw [List.drop_zero] at h2
  rw [← h2, ← h1, List.map_map]
  rfl

/-- gathering `x` through its own argsort gives the first components of the sorted pairs -/
theorem gather_fst (d : α) (x w : List α) (h : x.length ≤ w.length) :
    (argsortStable x).map (fun i => x.getD i d) = (sortPairs (x.zip w)).map Prod.fst := by
  have e1 : (sortPairs (x.zip w)).map Prod.fst = sortG id x := by
    rw [sortPairs_eq, sortG_map (α := α) Prod.fst id Prod.fst (fun _ => rfl)]
    congr 1
    exact List.map_fst_zip (by omega)
  have e3 : ∀ l : List α, l.zip l = l.map (fun v => (v, v)) := by
    intro l
    induction l with
    | nil => rfl
    | cons a l ih => simp [List.zip_cons_cons, ih]
  have e3 := e3 x
  rw [gather_snd d x x (Nat.le_refl _), e1, sortPairs_eq, e3,
    ← sortG_map (α := α) id Prod.fst (fun v : α => (v, v)) (fun _ => rfl), List.map_map]
  exact List.map_id _

end

end Taurex.C09Src
