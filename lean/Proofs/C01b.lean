/-
  More lemmas about `Taurex.Transmission` over ℝ: chord lengths, monotonicity in the opacities, the licensed band.
-/
import Mathlib.Analysis.SpecialFunctions.Exp
import Mathlib.Analysis.SpecialFunctions.Sqrt
import Proofs.C01

open Finset

namespace Taurex.Transmission

/-! ### chords -/

theorem sum_chordOld (rp : ℝ) (z dz : ℕ → ℝ) (l m : ℕ) :
    ∑ k ∈ range (m + 1), chordOld rp z dz l k = 2 * oldHalf rp z dz l (l + m) := by
  induction m with
  | zero => simp [chordOld]; ring
  | succ m ih =>
    rw [Finset.sum_range_succ, ih]
    simp only [chordOld, Nat.succ_ne_zero, if_false, Nat.add_succ_sub_one]
    ring

theorem sum_chordNew (rp : ℝ) (zb z dz : ℕ → ℝ) (l m : ℕ) :
    ∑ k ∈ range (m + 1), chordNew rp zb z dz l k = newD rp zb z dz l (l + 1 + m) := by
  induction m with
  | zero => simp [chordNew]
  | succ m ih =>
    rw [Finset.sum_range_succ, ih]
    simp only [chordNew, Nat.succ_ne_zero, if_false]
    have : l + (m + 1) = l + 1 + m := by omega
    rw [this, ← Nat.add_assoc]; ring

theorem oldHalf_mono (rp : ℝ) (z dz : ℕ → ℝ) (l i j : ℕ) (h0 : 0 ≤ oldMid rp z dz i)
    (h : oldMid rp z dz i ≤ oldMid rp z dz j) : oldHalf rp z dz l i ≤ oldHalf rp z dz l j := by
  unfold oldHalf
  simp only [sqrt_real]
  apply Real.sqrt_le_sqrt
  have : sq (oldMid rp z dz i) ≤ sq (oldMid rp z dz j) := by unfold sq; nlinarith
  linarith

theorem newD_mono (rp : ℝ) (zb z dz : ℕ → ℝ) (l i j : ℕ) (h0 : 0 ≤ rp + zb i) (h : zb i ≤ zb j) :
    newD rp zb z dz l i ≤ newD rp zb z dz l j := by
  unfold newD
  simp only [sqrt_real]
  have : Real.sqrt (sq (rp + zb i) - sq (newB rp z dz l)) ≤ Real.sqrt (sq (rp + zb j) - sq (newB rp z dz l)) := by
    apply Real.sqrt_le_sqrt
    have : sq (rp + zb i) ≤ sq (rp + zb j) := by unfold sq; nlinarith
    linarith
  linarith

/-! ### monotonicity in the opacities -/

/-- same kernels, pointwise larger opacities -/
def Contrib.Le (c c' : Contrib ℝ) : Prop := c.kind = c'.kind ∧ ∀ l wn, c.sigma l wn ≤ c'.sigma l wn

theorem term_mono (c c' : Contrib ℝ) (h : c.Le c') (n l : ℕ) (path dens : ℕ → ℝ) (hp : ∀ k < n - l, 0 ≤ path k)
    (hd : ∀ j < n, 0 ≤ dens j) (wn k : ℕ) (hk : k < nTerms c n l) :
    term c path dens l wn k ≤ term c' path dens l wn k := by
  obtain ⟨hkind, hs⟩ := h
  unfold term
  unfold nTerms at hk
  rw [← hkind]
  cases hkk : c.kind <;> simp only [hkk] at hk ⊢
  · have h1 := hp k hk; have h2 := hd (k + l) (by omega)
    exact mul_le_mul_of_nonneg_right (mul_le_mul_of_nonneg_right (hs _ _) h1) h2
  · have h1 := hp k hk; have h2 := hd (k + l) (by omega)
    exact mul_le_mul_of_nonneg_right
      (mul_le_mul_of_nonneg_right (mul_le_mul_of_nonneg_right (hs _ _) h1) h2) h2
  · exact hs _ _

theorem addContrib_mono (c c' : Contrib ℝ) (h : c.Le c') (n : ℕ) (path dens : ℕ → ℝ) (l : ℕ)
    (hp : ∀ k < n - l, 0 ≤ path k) (hd : ∀ j < n, 0 ≤ dens j) {a b : ℕ → ℝ} (hab : ∀ wn, a wn ≤ b wn) (wn : ℕ) :
    addContrib c n path dens l a wn ≤ addContrib c' n path dens l b wn := by
  unfold addContrib
  have hk : nTerms c' n l = nTerms c n l := by unfold nTerms; rw [h.1]
  rw [hk]
  exact accFrom_mono (hab wn) _ _ _ (fun k hk' => term_mono c c' h n l path dens hp hd wn k hk')

theorem tauFullFrom_mono (n : ℕ) (path dens : ℕ → ℝ) (l : ℕ) (hp : ∀ k < n - l, 0 ≤ path k) (hd : ∀ j < n, 0 ≤ dens j)
    (cs cs' : List (Contrib ℝ)) (h : List.Forall₂ Contrib.Le cs cs') {a b : ℕ → ℝ} (hab : ∀ wn, a wn ≤ b wn)
    (wn : ℕ) : tauFullFrom n path dens l cs a wn ≤ tauFullFrom n path dens l cs' b wn := by
  induction h generalizing a b with
  | nil => simpa [tauFullFrom] using hab wn
  | cons hc _ ih =>
    simp only [tauFullFrom, List.foldl_cons] at ih ⊢
    exact ih (fun wn => addContrib_mono _ _ hc n path dens l hp hd hab wn)

/-- multiply every opacity of a contribution by `s` -/
def Contrib.scale (s : ℝ) (c : Contrib ℝ) : Contrib ℝ := { kind := c.kind, sigma := fun l wn => s * c.sigma l wn }

theorem scale_le (s : ℝ) (hs : 1 ≤ s) (cs : List (Contrib ℝ)) (hcs : ∀ c ∈ cs, c.Nonneg) :
    List.Forall₂ Contrib.Le cs (cs.map (Contrib.scale s)) := by
  induction cs with
  | nil => simp
  | cons c cs ih =>
    simp only [List.map_cons]
    refine List.Forall₂.cons ⟨rfl, fun l wn => ?_⟩ (ih (fun c' hc' => hcs c' (by simp [hc'])))
    have := hcs c (by simp) l wn
    simp only [Contrib.scale]
    nlinarith

theorem scale_nonneg (s : ℝ) (hs : 0 ≤ s) (cs : List (Contrib ℝ)) (hcs : ∀ c ∈ cs, c.Nonneg) :
    ∀ c ∈ cs.map (Contrib.scale s), c.Nonneg := by
  intro c hc
  obtain ⟨c0, hc0, rfl⟩ := List.mem_map.1 hc
  intro l wn
  exact mul_nonneg hs (hcs c0 hc0 l wn)

/-! ### nothing absorbs -/

theorem addContrib_zero (c : Contrib ℝ) (hc : ∀ l wn, c.sigma l wn = 0) (n : ℕ) (path dens : ℕ → ℝ) (l : ℕ)
    (acc : ℕ → ℝ) : addContrib c n path dens l acc = acc := by
  funext wn
  unfold addContrib
  rw [accFrom_eq]
  have : ∀ k, term c path dens l wn k = 0 := by
    intro k; unfold term; cases c.kind <;> simp [hc]
  simp [this]

theorem tauFullFrom_zero (n : ℕ) (path dens : ℕ → ℝ) (l : ℕ) (cs : List (Contrib ℝ))
    (h : ∀ c ∈ cs, ∀ l wn, c.sigma l wn = 0) (acc : ℕ → ℝ) : tauFullFrom n path dens l cs acc = acc := by
  induction cs generalizing acc with
  | nil => rfl
  | cons c cs ih =>
    simp only [tauFullFrom, List.foldl_cons] at ih ⊢
    rw [addContrib_zero c (h c (by simp))]
    exact ih (fun c' hc' => h c' (by simp [hc'])) acc

theorem tauCutFrom_zero (n nwn : ℕ) (path dens : ℕ → ℝ) (l : ℕ) (cs : List (Contrib ℝ))
    (h : ∀ c ∈ cs, ∀ l wn, c.sigma l wn = 0) (acc : ℕ → ℝ) : tauCutFrom n nwn path dens l cs acc = acc := by
  induction cs generalizing acc with
  | nil => rfl
  | cons c cs ih =>
    unfold tauCutFrom
    split
    · rfl
    · rw [addContrib_zero c (h c (by simp))]
      exact ih (fun c' hc' => h c' (by simp [hc'])) acc

end Taurex.Transmission
