/-
  C05: the `searchsorted` window of `FluxBinner.bindown` against the overlap of intervals.
-/
import Proofs.C05Spec

namespace Taurex.Binning
open List Taurex.Interp

/-- on a list sorted by `R`, a predicate that is downward closed along `R` holds exactly on the first
    `countP p` elements (this is what makes `np.searchsorted` a count) -/
theorem countP_prefix {β : Type} (R : β → β → Prop) (p : β → Bool)
    (hmono : ∀ x y, R x y → p y = true → p x = true) (l : List β) (hs : l.Pairwise R) :
    (∀ x ∈ l.take (l.countP p), p x = true) ∧ (∀ x ∈ l.drop (l.countP p), p x = false) := by
  induction l with
  | nil => simp
  | cons x t ih =>
    rw [List.pairwise_cons] at hs
    obtain ⟨ih1, ih2⟩ := ih hs.2
    by_cases hx : p x = true
    · rw [List.countP_cons_of_pos hx]
      constructor
      · intro y hy
        rw [List.take_succ_cons] at hy
        rcases List.mem_cons.1 hy with rfl | hy
        · exact hx
        · exact ih1 y hy
      · intro y hy
        rw [List.drop_succ_cons] at hy
        exact ih2 y hy
    · have hall : ∀ y ∈ t, p y = false := by
        intro y hy
        by_contra hpy
        exact hx (hmono x y (hs.1 y hy) (by simpa using hpy))
      have h0 : t.countP p = 0 := by
        rw [List.countP_eq_zero]
        intro y hy
        simp [hall y hy]
      rw [List.countP_cons_of_neg hx, h0]
      constructor
      · intro y hy; simp at hy
      · intro y hy
        rw [List.drop_zero] at hy
        rcases List.mem_cons.1 hy with rfl | hy
        · simpa using hx
        · exact hall y hy

theorem searchRight_map {β : Type} (f : β → ℝ) (l : List β) (v : ℝ) :
    searchRight (l.map f) v = l.countP (fun r => decide (f r ≤ v)) := by
  unfold searchRight
  rw [List.countP_map]
  rfl

theorem getD_map_of_lt {β : Type} (f : β → ℝ) (l : List β) (i : Nat) (h : i < l.length) :
    (l.map f).getD i 0 = f l[i] := by
  rw [List.getD_eq_getElem?_getD, List.getElem?_map, List.getElem?_eq_getElem h]
  rfl

/-- number of native bins whose upper edge is `≤ a` (`save_start` before clamping) -/
noncomputable def start0 (rows : List (Row ℝ)) (a : ℝ) : Nat := rows.countP (fun r => decide (r.hi ≤ a))
/-- number of native bins after the first whose lower edge is `≤ b` (`save_stop` before clamping) -/
noncomputable def stop0 (rows : List (Row ℝ)) (b : ℝ) : Nat := (rows.drop 1).countP (fun r => decide (r.lo ≤ b))

theorem window_unfold (rows : List (Row ℝ)) (a b : ℝ) :
    window rows a b =
      if a ≤ (rows.map Row.hi).getD (min (start0 rows a) (rows.length - 1)) 0 ∧
          (rows.map Row.lo).getD (min (stop0 rows b) (rows.length - 1)) 0 ≤ b
      then some (min (start0 rows a) (rows.length - 1), min (stop0 rows b) (rows.length - 1)) else none := by
  unfold window start0 stop0
  rw [searchRight_map, ← List.map_drop, searchRight_map]

theorem start0_facts (rows : List (Row ℝ)) (a : ℝ) (hhi : rows.Pairwise (fun r r' => r.hi ≤ r'.hi)) :
    (∀ r ∈ rows.take (start0 rows a), r.hi ≤ a) ∧ (∀ r ∈ rows.drop (start0 rows a), a < r.hi) := by
  have := countP_prefix (fun r r' : Row ℝ => r.hi ≤ r'.hi) (fun r => decide (r.hi ≤ a))
    (by intro x y hxy hy; simp only [decide_eq_true_eq] at *; exact le_trans hxy hy) rows hhi
  constructor
  · intro r hr; simpa using this.1 r hr
  · intro r hr; simpa using this.2 r hr

theorem stop0_facts (rows : List (Row ℝ)) (b : ℝ) (hlo : rows.Pairwise (fun r r' => r.lo ≤ r'.lo)) :
    (∀ r ∈ (rows.drop 1).take (stop0 rows b), r.lo ≤ b) ∧ (∀ r ∈ rows.drop (stop0 rows b + 1), b < r.lo) := by
  have hs : (rows.drop 1).Pairwise (fun r r' : Row ℝ => r.lo ≤ r'.lo) := hlo.sublist (List.drop_sublist _ _)
  have := countP_prefix (fun r r' : Row ℝ => r.lo ≤ r'.lo) (fun r => decide (r.lo ≤ b))
    (by intro x y hxy hy; simp only [decide_eq_true_eq] at *; exact le_trans hxy hy) (rows.drop 1) hs
  constructor
  · intro r hr; simpa using this.1 r hr
  · intro r hr
    have h2 := this.2 r (by
      rw [List.drop_drop]
      have : 1 + (rows.drop 1).countP (fun r => decide (r.lo ≤ b)) = stop0 rows b + 1 := by
        unfold stop0; omega
      rw [this]; exact hr)
    simpa using h2

theorem stop0_le (rows : List (Row ℝ)) (b : ℝ) : stop0 rows b ≤ rows.length - 1 := by
  unfold stop0
  have := List.countP_le_length (p := fun r : Row ℝ => decide (r.lo ≤ b)) (l := rows.drop 1)
  simpa using this

theorem weight_eq_overlap (a b : ℝ) (r : Row ℝ) (hab : a < b) (hw : r.lo ≤ r.hi) (h1 : a ≤ r.hi) (h2 : r.lo ≤ b) :
    weight a b r = overlap a b r / (b - a) := by
  unfold weight
  rw [overlap_eq, mn_eq_min, mx_eq_max]
  have : max r.lo a ≤ min b r.hi := max_le (le_min h2 hw) (le_min hab.le h1)
  rw [max_eq_right (show (0:ℝ) ≤ min b r.hi - max r.lo a by linarith)]

theorem window_some (rows : List (Row ℝ)) (a b : ℝ) (hne : rows ≠ [])
    (hord : OrderedBins rows) (s t : Nat) (hwin : window rows a b = some (s, t)) :
    (∀ r ∈ rows.take s, overlap a b r = 0) ∧ (∀ r ∈ rows.drop (t + 1), overlap a b r = 0) ∧
    (∀ r ∈ slice rows s t, a ≤ r.hi ∧ r.lo ≤ b) := by
  obtain ⟨hlo, hhi⟩ := hord
  have hn : 0 < rows.length := List.length_pos_iff.2 hne
  obtain ⟨A1, A2⟩ := start0_facts rows a hhi
  obtain ⟨B1, B2⟩ := stop0_facts rows b hlo
  have ht := stop0_le rows b
  rw [window_unfold] at hwin
  by_cases hc : a ≤ (rows.map Row.hi).getD (min (start0 rows a) (rows.length - 1)) 0 ∧
          (rows.map Row.lo).getD (min (stop0 rows b) (rows.length - 1)) 0 ≤ b
  · rw [if_pos hc] at hwin
    simp only [Option.some.injEq, Prod.mk.injEq] at hwin
    obtain ⟨hs, ht'⟩ := hwin
    have hsn : s < rows.length := by omega
    have htn : t < rows.length := by omega
    rw [hs, ht', getD_map_of_lt _ _ s hsn, getD_map_of_lt _ _ t htn] at hc
    have plo := List.pairwise_iff_getElem.1 hlo
    have phi := List.pairwise_iff_getElem.1 hhi
    refine ⟨?_, ?_, ?_⟩
    · intro r hr
      apply overlap_zero_of_hi_le
      apply A1
      have : rows.take s = (rows.take (start0 rows a)).take s := by
        rw [List.take_take]; congr 1; omega
      rw [this] at hr
      exact List.mem_of_mem_take hr
    · intro r hr
      apply overlap_zero_of_le_lo
      have : t = stop0 rows b := by omega
      rw [this] at hr
      exact (B2 r hr).le
    · intro r hr
      unfold slice at hr
      obtain ⟨j, hj, rfl⟩ := List.mem_take_iff_getElem.1 hr
      have hj' : j < t + 1 - s ∧ s + j < rows.length := by
        simp only [List.length_drop] at hj; omega
      rw [List.getElem_drop]
      constructor
      · rcases Nat.eq_zero_or_pos j with rfl | hjp
        · exact hc.1
        · exact le_trans hc.1 (phi s (s + j) hsn hj'.2 (by omega))
      · rcases Nat.lt_or_ge (s + j) t with hlt | hge
        · exact le_trans (plo (s + j) t hj'.2 htn hlt) hc.2
        · have : s + j = t := by omega
          simp only [this]; exact hc.2
  · rw [if_neg hc] at hwin
    exact absurd hwin (by simp)

theorem window_none (rows : List (Row ℝ)) (a b : ℝ) (hne : rows ≠ [])
    (hord : OrderedBins rows) (hwin : window rows a b = none) :
    ∀ r ∈ rows, overlap a b r = 0 := by
  obtain ⟨hlo, hhi⟩ := hord
  have hn : 0 < rows.length := List.length_pos_iff.2 hne
  obtain ⟨A1, A2⟩ := start0_facts rows a hhi
  obtain ⟨B1, B2⟩ := stop0_facts rows b hlo
  have ht := stop0_le rows b
  rw [window_unfold] at hwin
  have plo := List.pairwise_iff_getElem.1 hlo
  have phi := List.pairwise_iff_getElem.1 hhi
  have hsn : min (start0 rows a) (rows.length - 1) < rows.length := by omega
  have htn : min (stop0 rows b) (rows.length - 1) < rows.length := by omega
  rw [getD_map_of_lt _ _ _ hsn, getD_map_of_lt _ _ _ htn] at hwin
  by_cases hc : a ≤ (rows[min (start0 rows a) (rows.length - 1)]).hi ∧
      (rows[min (stop0 rows b) (rows.length - 1)]).lo ≤ b
  · rw [if_pos hc] at hwin
    exact absurd hwin (by simp)
  · rw [not_and_or] at hc
    intro r hr
    obtain ⟨i, hi, rfl⟩ := List.mem_iff_getElem.1 hr
    rcases hc with h1 | h2
    · have h1' := lt_of_not_ge h1
      apply overlap_zero_of_hi_le
      have hsn1 : min (start0 rows a) (rows.length - 1) = rows.length - 1 := by
        by_contra hne'
        have hs0 : min (start0 rows a) (rows.length - 1) = start0 rows a := by omega
        have hmem : rows[min (start0 rows a) (rows.length - 1)] ∈ rows.drop (start0 rows a) := by
          rw [List.mem_drop_iff_getElem]
          exact ⟨0, by omega, by simp [hs0]⟩
        linarith [A2 _ hmem]
      rcases Nat.lt_or_ge i (min (start0 rows a) (rows.length - 1)) with hlt | hge
      · exact le_trans (phi i _ hi hsn hlt) h1'.le
      · have : i = min (start0 rows a) (rows.length - 1) := by omega
        simp only [this]; exact h1'.le
    · have h2' := lt_of_not_ge h2
      apply overlap_zero_of_le_lo
      have ht0 : stop0 rows b = 0 := by
        by_contra hne'
        have htt : min (stop0 rows b) (rows.length - 1) = stop0 rows b := by omega
        have hmem : rows[min (stop0 rows b) (rows.length - 1)] ∈ (rows.drop 1).take (stop0 rows b) := by
          rw [List.mem_take_iff_getElem]
          refine ⟨stop0 rows b - 1, by simp only [List.length_drop]; omega, ?_⟩
          rw [List.getElem_drop]
          congr 1
          omega
        linarith [B1 _ hmem]
      have ht1 : min (stop0 rows b) (rows.length - 1) = 0 := by omega
      rcases Nat.eq_zero_or_pos i with hi0 | hip
      · have : (rows[min (stop0 rows b) (rows.length - 1)]) = rows[i] := by congr 1; omega
        rw [← this]; exact h2'.le
      · have := plo 0 i hn hi hip
        have h3 : (rows[min (stop0 rows b) (rows.length - 1)]) = rows[0] := by congr 1
        rw [h3] at h2'
        linarith

theorem sum_slice (f : Row ℝ → ℝ) (rows : List (Row ℝ)) (s t : Nat)
    (h1 : ∀ r ∈ rows.take s, f r = 0) (h2 : ∀ r ∈ rows.drop (t + 1), f r = 0) :
    (rows.map f).sum = ((slice rows s t).map f).sum := by
  have z1 : ((rows.take s).map f).sum = 0 := by
    apply List.sum_eq_zero
    intro x hx
    obtain ⟨r, hr, rfl⟩ := List.mem_map.1 hx
    exact h1 r hr
  have z3 : (((rows.drop s).drop (t + 1 - s)).map f).sum = 0 := by
    apply List.sum_eq_zero
    intro x hx
    obtain ⟨r, hr, rfl⟩ := List.mem_map.1 hx
    apply h2 r
    rw [List.drop_drop] at hr
    have : s + (t + 1 - s) = (t + 1) + (s + (t + 1 - s) - (t + 1)) := by omega
    rw [this, ← List.drop_drop] at hr
    exact List.mem_of_mem_drop hr
  calc (rows.map f).sum
      = ((rows.take s).map f).sum + ((rows.drop s).map f).sum := by
        rw [← List.sum_append, ← List.map_append, List.take_append_drop]
    _ = ((rows.drop s).map f).sum := by rw [z1, zero_add]
    _ = (((rows.drop s).take (t + 1 - s)).map f).sum + (((rows.drop s).drop (t + 1 - s)).map f).sum := by
        rw [← List.sum_append, ← List.map_append, List.take_append_drop]
    _ = ((slice rows s t).map f).sum := by rw [z3, add_zero]; rfl


end Taurex.Binning
