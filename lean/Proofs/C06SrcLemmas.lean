/-
  Helper definitions and lemmas for the C06 source tie (`Props/C06Src.lean`): NaN-propagating arithmetic on `Option α`
  (`none` = NaN), and the list facts that relate the loops of the translated source to the `List` combinators of the model.
  Core only (no Mathlib).
-/
import TaurexModel.Likelihood
set_option linter.unusedSectionVars false
set_option linter.unusedVariables false

namespace Taurex.C06Src
open Taurex.Likelihood

/-- IEEE-style lifting of a binary operation to values that may be NaN (`none`): NaN in, NaN out -/
def nanLift {α : Type} (f : α → α → α) : Option α → Option α → Option α
  | some a, some b => some (f a b)
  | _, _ => none

/-- what a `Val` is as a possibly-NaN number -/
def valOpt {α : Type} : Val α → Option α
  | .fin x => some x
  | .nan => none
  | .posInf => none

section lists
variable {β γ : Type}

/-- appending one computed entry per element is `map` -/
theorem foldl_append_map (f : β → γ) (l : List β) (acc : List γ) :
    l.foldl (fun acc x => acc ++ [f x]) acc = acc ++ l.map f := by
  induction l generalizing acc with
  | nil => simp
  | cons x l ih => simp [ih]

/-- `[l[i] for i in range(n)]` (with the total `getD`) is `l.take n` when `n ≤ len(l)` -/
theorem map_getD_range {α : Type} (d : α) (l : List α) (n : Nat) (h : n ≤ l.length) :
    (List.range n).map (fun i => l.getD i d) = l.take n := by
  apply List.ext_getElem
  · simp [Nat.min_eq_left h]
  · intro i h1 h2
    simp at h1
    have : i < l.length := by omega
    simp [List.getD, List.getElem?_eq_getElem this]

end lists

section nan
variable {α : Type} [Add α] [Sub α] [Mul α] [Div α] [Neg α] [LT α] [LE α]
  [DecidableLT α] [DecidableLE α] [OfNat α 0] [OfNat α 1] [OfNat α 2] [Taurex.Transc α]

/-! arithmetic of possibly-NaN numbers: the carrier at which the translated `chisq_trans` is compared with the model -/
instance nanAddI : Add (Option α) := ⟨nanLift (· + ·)⟩
instance nanSubI : Sub (Option α) := ⟨nanLift (· - ·)⟩
instance nanMulI : Mul (Option α) := ⟨nanLift (· * ·)⟩
instance nanDivI : Div (Option α) := ⟨nanLift (· / ·)⟩
instance nanZeroI : OfNat (Option α) 0 := ⟨some 0⟩

theorem resid_eq (obs sig : List α) (m : List (Option α)) :
    (List.zipWith (fun x y => x / y) (List.zipWith (fun x y => x - y) (obs.map some) m) (sig.map some)).map
        (fun x => x * x) = residuals obs sig m := by
  induction obs generalizing sig m with
  | nil => simp [residuals]
  | cons d ds ih =>
    cases m with
    | nil => simp [residuals]
    | cons mm ms =>
      cases sig with
      | nil => simp [residuals]
      | cons s ss =>
        simp only [List.map_cons, List.zipWith_cons_cons, residuals, ih]
        cases mm <;> rfl

theorem all_sq (l : List (Option α)) :
    (l.map (fun x => x * x)).all Option.isNone = l.all (fun x => Option.isNone x) := by
  induction l with
  | nil => rfl
  | cons x l ih =>
    simp only [List.map_cons, List.all_cons, ih]
    cases x <;> rfl

theorem nansum_eq (l : List (Option α)) (a : α) :
    l.foldl (fun acc x => if Option.isNone x then acc else acc + x) (some a) = some (l.foldl nanAdd a) := by
  induction l generalizing a with
  | nil => rfl
  | cons x l ih =>
    cases x with
    | none => exact ih a
    | some v => exact ih (a + v)

theorem valOpt_ite (c : Prop) [Decidable c] (x : α) :
    valOpt (if c then Val.nan else Val.fin x) = if c then none else some x := by
  split <;> rfl

/-! the remaining operations the sampler closures use (`-x`, the literal `2`, `np.sqrt`, `np.log`), lifted the same way:
    NaN in, NaN out; on numbers the carrier's own operation -/
instance nanNegI : Neg (Option α) := ⟨Option.map (fun a => -a)⟩
instance nanTwoI : OfNat (Option α) 2 := ⟨some 2⟩
instance nanTranscI : Taurex.Transc (Option α) where
  exp := Option.map exp
  log := Option.map log
  log10 := Option.map log10
  sqrt := Option.map sqrt
  pow10 := Option.map pow10

/-- `np.sum` of numbers computed element-wise from numbers stays a number -/
theorem foldl_some_add (g : α → α) (G : Option α → Option α) (hG : ∀ x, G (some x) = some (g x)) (l : List α) (a : α) :
    List.foldl (fun acc x => acc + x) (some a) (List.map G (l.map some))
      = some (List.foldl (fun acc x => acc + x) a (l.map g)) := by
  induction l generalizing a with
  | nil => rfl
  | cons x l ih =>
    simp only [List.map_cons, List.foldl_cons, hG]
    exact ih (a + g x)

/-- the normalisation term `np.sum(np.log(datastd*sqrtpi))` of error bars that are numbers, at the NaN-aware carrier -/
theorem normTerm_some (pi : α) (sig : List α) :
    List.foldl (fun acc x => acc + x) (0 : Option α)
        (List.map (fun x => log (x * sqrt ((2 : Option α) * some pi))) (sig.map some))
      = some (normTerm pi sig) :=
  foldl_some_add (fun s => log (s * sqrt (2 * pi))) _ (fun _ => rfl) sig 0

/-- `-norm - 0.5*chi_t` with `chi_t` possibly NaN: NaN exactly when `chi_t` is -/
theorem loglike_nan (a h : α) (x : Option α) :
    (-(some a : Option α)) - ((some h : Option α) * x) = x.map (fun c => -a - h * c) := by
  cases x <;> rfl

end nan

section loops
variable {α : Type} [OfNat α 0] {π : Type}

/-- append loop over `enumerate(priors)` reading `theta[idx]` -/
theorem enum_append (sample : π → α → α) (ps : List π) (theta : List α) (k : Nat) (acc : List α)
    (h : k + ps.length ≤ theta.length) :
    (List.zipIdx ps k).foldl (fun (cube : List α) (it : π × Nat) => cube ++ [sample it.1 (theta.getD it.2 0)]) acc
      = acc ++ List.zipWith sample ps (theta.drop k) := by
  induction ps generalizing k acc with
  | nil => simp
  | cons p ps ih =>
    have hk : k < theta.length := by simp at h; omega
    simp only [List.zipIdx_cons, List.foldl_cons]
    rw [ih (k + 1) _ (by simp at h ⊢; omega), List.drop_eq_getElem_cons hk, List.zipWith_cons_cons]
    simp only [List.getD, List.getElem?_eq_getElem hk, Option.getD_some, List.append_assoc, List.singleton_append]

/-- in-place loop over `enumerate(priors)`: `cube[idx] = sample(<value read for idx>)` on `cube = pre ++ rest`, `idx` starting
    at `len(pre)`.  `rd cube idx` is how the value is read (from the cube itself for MultiNest, from the hypercube for
    PolyChord); `hrd`: at step `i` it yields `vals[i]` -/
theorem enum_set (sample : π → α → α) (ps : List π) (rd : List α → Nat → α) (pre rest vals : List α)
    (hlen : ps.length ≤ rest.length) (hvals : ps.length ≤ vals.length)
    (hrd : ∀ (pre' : List α) (i : Nat), pre'.length = pre.length + i → i < ps.length →
        rd (pre' ++ rest.drop i) (pre.length + i) = vals.getD i 0) :
    (List.zipIdx ps pre.length).foldl (fun (cube : List α) (it : π × Nat) => cube.set it.2 (sample it.1 (rd cube it.2)))
        (pre ++ rest)
      = pre ++ List.zipWith sample ps vals ++ rest.drop ps.length := by
  induction ps generalizing pre rest vals with
  | nil => simp
  | cons p ps ih =>
    cases rest with
    | nil => simp at hlen
    | cons r rest =>
    cases vals with
    | nil => simp at hvals
    | cons v vals =>
      simp only [List.zipIdx_cons, List.foldl_cons]
      have h0 := hrd pre 0 rfl (by simp)
      simp only [Nat.add_zero, List.getD_cons_zero, List.drop_zero] at h0
      rw [h0]
      have hset : (pre ++ r :: rest).set pre.length (sample p v) = (pre ++ [sample p v]) ++ rest := by
        simp
      rw [hset]
      have := ih (pre ++ [sample p v]) rest vals (by simpa using hlen) (by simpa using hvals) (by
        intro pre' i hp hi
        have := hrd pre' (i + 1) (by simp at hp; omega) (by simp; omega)
        simpa [Nat.add_assoc, Nat.add_comm 1 i] using this)
      simpa using this

end loops

end Taurex.C06Src
