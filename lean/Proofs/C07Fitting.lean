/-
  Helper lemmas for Props/C07.lean, part 4: `ParameterParser.setup_optimizer` (TaurexModel/FittingSection.lean) composed with
  the optimizer state machine.
-/
import Proofs.C07Update
import TaurexModel.FittingSection

namespace Taurex.C07
open Taurex.Priors Taurex.OptimizerSM Taurex.FittingSection

section
variable {α : Type} [LT α] [DecidableLT α] [OfNat α 0] [Mul α] [Transc α]

/-! ### one settings call on a known name rewrites that name's tuple in both tables (one of them does not hold it) -/

/-- rewrite the tuple of `n` wherever it is -/
def applyEff (s : St String α) (n : String) (f : Param String α → Param String α) : St String α :=
  { s with model := modifyParam s.model n f, obs := modifyParam s.obs n f }

def Known (s : St String α) (n : String) : Prop := n ∈ names s.model ∨ n ∈ names s.obs

theorem withParam_known (s : St String α) (hw : WF s) (n : String) (f : Param String α → Param String α)
    (hk : Known s n) : withParam s n f = (applyEff s n f, .ok) := by
  unfold withParam ownerOf applyEff
  by_cases hm : hasName s.model n = true
  · have hno : n ∉ names s.obs := fun ho => hw.disj ho ((hasName_iff _ _).1 hm)
    simp [hm, table, setTable, modifyParam_not_mem s.obs n f hno]
  · have hm' : hasName s.model n = false := by simpa using hm
    have hnm : n ∉ names s.model := (hasName_false_iff _ _).1 hm'
    have ho : n ∈ names s.obs := by
      rcases hk with h | h
      · exact absurd h hnm
      · exact h
    have ho' : hasName s.obs n = true := (hasName_iff _ _).2 ho
    simp [hm', table, setTable, ho', modifyParam_not_mem s.model n f hnm]

theorem withParam_unknown (s : St String α) (n : String) (f : Param String α → Param String α)
    (hk : ¬ Known s n) : withParam s n f = (s, .keyError) := by
  have h1 : hasName s.model n = false := (hasName_false_iff _ _).2 (fun h => hk (Or.inl h))
  have h2 : hasName s.obs n = false := (hasName_false_iff _ _).2 (fun h => hk (Or.inr h))
  simp [withParam, ownerOf, table, h1, h2]

theorem hasName_owner_known (s : St String α) (n : String) (hk : Known s n) :
    hasName (table s (ownerOf s n)) n = true := by
  unfold ownerOf
  by_cases hm : hasName s.model n = true
  · simp [hm, table]
  · have hm' : hasName s.model n = false := by simpa using hm
    have hnm : n ∉ names s.model := (hasName_false_iff _ _).1 hm'
    rcases hk with h | h
    · exact absurd h hnm
    · simp [hm', table, (hasName_iff _ _).2 h]

theorem applyEff_names (s : St String α) (n : String) (f : Param String α → Param String α)
    (hf : ∀ p, (f p).name = p.name) : tableNames (applyEff s n f) = tableNames s := by
  simp [tableNames, applyEff, names_modifyParam _ _ _ hf]

theorem modifyParam_comp (ps : List (Param String α)) (n : String) (f g : Param String α → Param String α)
    (hf : ∀ p, (f p).name = p.name) : modifyParam (modifyParam ps n f) n g = modifyParam ps n (g ∘ f) := by
  unfold modifyParam
  rw [List.map_map]
  apply List.map_congr_left
  intro p _
  by_cases h : p.name = n
  · simp [h, hf]
  · simp [h]

theorem modifyParam_id (ps : List (Param String α)) (n : String) : modifyParam ps n id = ps := by
  unfold modifyParam
  conv => rhs; rw [← List.map_id ps]
  apply List.map_congr_left
  intro p _
  by_cases h : p.name = n <;> simp [h]

theorem modifyParam_congr (ps : List (Param String α)) (n : String) (f g : Param String α → Param String α)
    (h : ∀ p, f p = g p) : modifyParam ps n f = modifyParam ps n g := by
  have : f = g := funext h
  rw [this]

theorem applyEff_comp (s : St String α) (n : String) (f g : Param String α → Param String α)
    (hf : ∀ p, (f p).name = p.name) : applyEff (applyEff s n f) n g = applyEff s n (g ∘ f) := by
  simp [applyEff, modifyParam_comp _ _ _ _ hf]

theorem applyEff_id (s : St String α) (n : String) : applyEff s n id = s := by
  simp [applyEff, modifyParam_id]

theorem Known_of_tableNames {s s' : St String α} (h : tableNames s' = tableNames s) (n : String) :
    Known s' n ↔ Known s n := by
  simp only [tableNames, Prod.mk.injEq] at h
  unfold Known
  rw [h.1, h.2]

/-! ### `runStop` -/

theorem runStop_cons_ok (s s' : St String α) (op : Op String α) (ops : List (Op String α)) (h : step s op = (s', .ok)) :
    runStop s (op :: ops) = ((runStop s' ops).1, (runStop s' ops).2.1, op :: (runStop s' ops).2.2) := by
  simp [runStop, h]

theorem runStop_cons_err (s s' : St String α) (op : Op String α) (ops : List (Op String α)) (e : Out) (he : e ≠ .ok)
    (h : step s op = (s', e)) : runStop s (op :: ops) = (s', outOf e, [op]) := by
  cases e with
  | ok => exact absurd rfl he
  | keyError => simp [runStop, h]
  | valueError => simp [runStop, h]

/-- a first block that succeeds hands its state to the second block -/
theorem runStop_append_ok (l₁ : List (Op String α)) : ∀ (s : St String α) (l₂ : List (Op String α)),
    (runStop s l₁).2.1 = .ok →
    (runStop s (l₁ ++ l₂)).1 = (runStop (runStop s l₁).1 l₂).1 ∧
    (runStop s (l₁ ++ l₂)).2.1 = (runStop (runStop s l₁).1 l₂).2.1 := by
  induction l₁ with
  | nil => intro s l₂ _; simp [runStop]
  | cons op ops ih =>
    intro s l₂ h
    cases hr : (step s op).2 with
    | ok =>
      have hs : step s op = ((step s op).1, .ok) := by rw [← hr]
      rw [runStop_cons_ok s _ op ops hs] at h ⊢
      rw [List.cons_append, runStop_cons_ok s _ op (ops ++ l₂) hs]
      exact ih _ l₂ h
    | keyError =>
      have hs : step s op = ((step s op).1, .keyError) := by rw [← hr]
      rw [runStop_cons_err s _ op ops _ (by decide) hs] at h
      simp [outOf] at h
    | valueError =>
      have hs : step s op = ((step s op).1, .valueError) := by rw [← hr]
      rw [runStop_cons_err s _ op ops _ (by decide) hs] at h
      simp [outOf] at h

/-- a first block that fails stops everything -/
theorem runStop_append_err (l₁ : List (Op String α)) : ∀ (s : St String α) (l₂ : List (Op String α)),
    (runStop s l₁).2.1 ≠ .ok → (runStop s (l₁ ++ l₂)).2.1 ≠ .ok := by
  induction l₁ with
  | nil => intro s l₂ h; simp [runStop] at h
  | cons op ops ih =>
    intro s l₂ h
    cases hr : (step s op).2 with
    | ok =>
      have hs : step s op = ((step s op).1, .ok) := by rw [← hr]
      rw [runStop_cons_ok s _ op ops hs] at h
      rw [List.cons_append, runStop_cons_ok s _ op (ops ++ l₂) hs]
      exact ih _ l₂ h
    | keyError =>
      have hs : step s op = ((step s op).1, .keyError) := by rw [← hr]
      rw [List.cons_append, runStop_cons_err s _ op _ _ (by decide) hs]
      simp [outOf]
    | valueError =>
      have hs : step s op = ((step s op).1, .valueError) := by rw [← hr]
      rw [List.cons_append, runStop_cons_err s _ op _ _ (by decide) hs]
      simp [outOf]

end

section
variable {α : Type} [LT α] [DecidableLT α] [OfNat α 0] [Mul α] [Transc α]

/-! ### the calls made for one parameter -/

/-- a block of calls that all succeed and lead to `s'` -/
def Block (s : St String α) (l : List (Op String α)) (s' : St String α) : Prop :=
  (runStop s l).2.1 = .ok ∧ (runStop s l).1 = s'

theorem Block.nil (s : St String α) : Block s [] s := by simp [Block, runStop]

theorem Block.single (s s' : St String α) (op : Op String α) (h : step s op = (s', .ok)) : Block s [op] s' := by
  simp [Block, runStop, h]

theorem Block.append {s s₁ s₂ : St String α} {l₁ l₂ : List (Op String α)} (h₁ : Block s l₁ s₁) (h₂ : Block s₁ l₂ s₂) :
    Block s (l₁ ++ l₂) s₂ := by
  obtain ⟨ha, hb⟩ := runStop_append_ok l₁ s l₂ h₁.1
  rw [h₁.2] at ha hb
  exact ⟨by rw [hb]; exact h₂.1, by rw [ha]; exact h₂.2⟩

/-- after a successful block, the outcome of the whole is the outcome of the rest -/
theorem Block.then_out {s s₁ : St String α} {l₁ : List (Op String α)} (h₁ : Block s l₁ s₁) (l₂ : List (Op String α)) :
    (runStop s (l₁ ++ l₂)).2.1 = (runStop s₁ l₂).2.1 ∧ (runStop s (l₁ ++ l₂)).1 = (runStop s₁ l₂).1 := by
  obtain ⟨ha, hb⟩ := runStop_append_ok l₁ s l₂ h₁.1
  rw [h₁.2] at ha hb
  exact ⟨hb, ha⟩

def Ffit (r : Rec α) (p : Param String α) : Param String α := { p with fit := truthy r.fit }

def Ffac (fa : PairOpt α) (p : Param String α) : Param String α :=
  match fa with
  | .pair a b => { p with b0 := a * p.value, b1 := b * p.value }
  | _ => p

def Fbnd (bo : PairOpt α) (p : Param String α) : Param String α :=
  match bo with
  | .pair a b => { p with b0 := a, b1 := b }
  | _ => p

def Fmode (mo : ModeOpt) (p : Param String α) : Param String α :=
  match mo with
  | .mode m => { p with mode := (parseMode m).getD p.mode }
  | _ => p

theorem Ffit_name (r : Rec α) (p : Param String α) : (Ffit r p).name = p.name := rfl
theorem Ffac_name (fa : PairOpt α) (p : Param String α) : (Ffac fa p).name = p.name := by cases fa <;> rfl
theorem Fbnd_name (bo : PairOpt α) (p : Param String α) : (Fbnd bo p).name = p.name := by cases bo <;> rfl
theorem Fmode_name (mo : ModeOpt) (p : Param String α) : (Fmode mo p).name = p.name := by cases mo <;> rfl

theorem describeParam_eq (r : Rec α) (p : Param String α) :
    describeParam r p = Fmode (modeOpt r.mode) (Fbnd (pairOpt r.bounds) (Ffac (pairOpt r.factor) (Ffit r p))) := by
  unfold describeParam Fmode Fbnd Ffac Ffit
  cases pairOpt r.bounds <;> cases pairOpt r.factor <;> cases modeOpt r.mode <;> rfl

theorem describeParam_name (r : Rec α) (p : Param String α) : (describeParam r p).name = p.name := by
  rw [describeParam_eq, Fmode_name, Fbnd_name, Ffac_name, Ffit_name]

/-- WF and Known survive `applyEff` with a name-preserving function -/
theorem WF_applyEff {s : St String α} (hw : WF s) (n : String) (f : Param String α → Param String α)
    (hf : ∀ p, (f p).name = p.name) : WF (applyEff s n f) :=
  WF_of_tableNames (applyEff_names s n f hf) hw

theorem Known_applyEff {s : St String α} (n m : String) (f : Param String α → Param String α)
    (hf : ∀ p, (f p).name = p.name) : Known (applyEff s n f) m ↔ Known s m :=
  Known_of_tableNames (applyEff_names s n f hf) m

theorem block_fit (s : St String α) (hw : WF s) (n : String) (r : Rec α) (hk : Known s n) :
    Block s (fitOps n r) (applyEff s n (Ffit r)) := by
  unfold fitOps
  apply Block.single
  by_cases h : truthy r.fit = true
  · have hf : (fun p : Param String α => { p with fit := true }) = Ffit r := funext (fun p => by simp [Ffit, h])
    simp only [h, if_true, step]
    rw [withParam_known s hw n _ hk, hf]
  · have h' : truthy r.fit = false := by simpa using h
    have hf : (fun p : Param String α => { p with fit := false }) = Ffit r := funext (fun p => by simp [Ffit, h'])
    simp only [h', Bool.false_eq_true, if_false, step]
    rw [withParam_known s hw n _ hk, hf]

theorem block_factor (s : St String α) (hw : WF s) (n : String) (fa : PairOpt α) (hk : Known s n) :
    Block s (factorOps n fa) (applyEff s n (Ffac fa)) := by
  cases fa with
  | pair a b =>
    apply Block.single
    simp only [step]
    rw [withParam_known s hw n _ hk]
    rfl
  | skip =>
    have : applyEff s n (Ffac (PairOpt.skip : PairOpt α)) = s := applyEff_id s n
    rw [this]; exact Block.nil s
  | bad =>
    have : applyEff s n (Ffac (PairOpt.bad : PairOpt α)) = s := applyEff_id s n
    rw [this]; exact Block.nil s

theorem block_bounds (s : St String α) (hw : WF s) (n : String) (bo : PairOpt α) (hk : Known s n) :
    Block s (boundsOps n bo) (applyEff s n (Fbnd bo)) := by
  cases bo with
  | pair a b =>
    apply Block.single
    simp only [step]
    rw [withParam_known s hw n _ hk]
    rfl
  | skip =>
    have : applyEff s n (Fbnd (PairOpt.skip : PairOpt α)) = s := applyEff_id s n
    rw [this]; exact Block.nil s
  | bad =>
    have : applyEff s n (Fbnd (PairOpt.bad : PairOpt α)) = s := applyEff_id s n
    rw [this]; exact Block.nil s

/-- `set_mode` on a known name: ValueError for a string that is not a mode, otherwise the mode slot is rewritten -/
theorem step_setMode_known (s : St String α) (hw : WF s) (n m : String) (hk : Known s n) :
    step s (.setMode n m) = match parseMode m with
      | none => (s, .valueError)
      | some md => (applyEff s n (fun p => { p with mode := md }), .ok) := by
  have h := hasName_owner_known s n hk
  cases hp : parseMode m with
  | none => simp [step, h, hp]
  | some md =>
    have := withParam_known s hw n (fun p => { p with mode := md }) hk
    simp only [withParam, h, if_true] at this
    simp only [step, h, if_true, hp]
    exact this

/-- the mode is usable: absent, or one of the two mode strings -/
def ModeValid (mo : ModeOpt) : Prop :=
  match mo with
  | .mode m => parseMode m ≠ none
  | _ => True

theorem block_mode (s : St String α) (hw : WF s) (n : String) (mo : ModeOpt) (hk : Known s n) (hv : ModeValid mo) :
    Block s (modeOps n mo) (applyEff s n (Fmode mo)) := by
  cases mo with
  | mode m =>
    apply Block.single
    rw [step_setMode_known s hw n m hk]
    cases hp : parseMode m with
    | none => exact absurd hp hv
    | some md =>
      have hf : (fun p : Param String α => { p with mode := md }) = Fmode (ModeOpt.mode m) :=
        funext (fun p => by simp [Fmode, hp])
      simp only [hf]
  | skip =>
    have : applyEff s n (Fmode ModeOpt.skip) = s := applyEff_id s n
    rw [this]; exact Block.nil s
  | bad =>
    have : applyEff s n (Fmode ModeOpt.bad) = s := applyEff_id s n
    rw [this]; exact Block.nil s

theorem mode_invalid_out (s : St String α) (hw : WF s) (n : String) (mo : ModeOpt) (hk : Known s n) (hv : ¬ ModeValid mo)
    (rest : List (Op String α)) : (runStop s (modeOps n mo ++ rest)).2.1 = .valueError ∧ (runStop s (modeOps n mo ++ rest)).1 = s := by
  cases mo with
  | mode m =>
    have hp : parseMode m = none := by
      cases h : parseMode m with
      | none => rfl
      | some md => exact absurd (by simp [ModeValid, h]) hv
    have hs := step_setMode_known s hw n m hk
    rw [hp] at hs
    simp only [modeOps, List.cons_append, List.nil_append]
    rw [runStop_cons_err s s _ _ .valueError (by decide) hs]
    simp [outOf]
  | skip => exact absurd trivial hv
  | bad => exact absurd trivial hv

/-- `set_prior` on a known name -/
def withPrior (s : St String α) (n : String) : Option (Prior α) → St String α
  | none => s
  | some p => { s with userPriors := tset s.userPriors n p, fitPriors := tset s.fitPriors n p }

theorem block_prior (s : St String α) (n : String) (pr : Option (Prior α)) (hk : Known s n) :
    Block s (priorOps n pr) (withPrior s n pr) := by
  cases pr with
  | none => exact Block.nil s
  | some p =>
    apply Block.single
    simp [step, hasName_owner_known s n hk, withPrior]

end

section
variable {α : Type} [LT α] [DecidableLT α] [OfNat α 0] [Mul α] [Transc α]

/-- what the calls for one record do to the state -/
def applyRec (s : St String α) (n : String) (r : Rec α) : St String α :=
  withPrior (applyEff s n (describeParam r)) n r.prior

theorem recOps_eq (n : String) (r : Rec α) (ops : List (Op String α)) (h : recOps n r = some ops) :
    ops = fitOps n r ++ (factorOps n (pairOpt r.factor) ++ (boundsOps n (pairOpt r.bounds) ++
      (modeOps n (modeOpt r.mode) ++ priorOps n r.prior))) := by
  unfold recOps at h
  split at h
  · cases h
  · simp only [Option.some.injEq] at h
    rw [← h]
    simp [List.append_assoc]

/-- the three ways the calls for one record can end -/
theorem rec_run (s : St String α) (hw : WF s) (n : String) (r : Rec α) (ops : List (Op String α))
    (h : recOps n r = some ops) (rest : List (Op String α)) :
    (¬ Known s n → (runStop s (ops ++ rest)).2.1 = .keyError ∧ (runStop s (ops ++ rest)).1 = s) ∧
    (Known s n → ¬ ModeValid (modeOpt r.mode) → (runStop s (ops ++ rest)).2.1 = .valueError) ∧
    (Known s n → ModeValid (modeOpt r.mode) → Block s ops (applyRec s n r)) := by
  have he := recOps_eq n r ops h
  refine ⟨?_, ?_, ?_⟩
  · intro hk
    rw [he]
    simp only [fitOps, List.cons_append, List.nil_append]
    have hs : ∀ f : Param String α → Param String α, withParam s n f = (s, .keyError) :=
      fun f => withParam_unknown s n f hk
    by_cases ht : truthy r.fit = true
    · simp only [ht, if_true]
      rw [runStop_cons_err s s _ _ .keyError (by decide) (by simp [step, hs])]
      simp [outOf]
    · have ht' : truthy r.fit = false := by simpa using ht
      simp only [ht', Bool.false_eq_true, if_false]
      rw [runStop_cons_err s s _ _ .keyError (by decide) (by simp [step, hs])]
      simp [outOf]
  · intro hk hv
    have b1 := block_fit s hw n r hk
    have hw1 := WF_applyEff hw n (Ffit r) (Ffit_name r)
    have hk1 := (Known_applyEff (s := s) n n (Ffit r) (Ffit_name r)).2 hk
    have b2 := block_factor _ hw1 n (pairOpt r.factor) hk1
    have hw2 := WF_applyEff hw1 n (Ffac (pairOpt r.factor)) (Ffac_name _)
    have hk2 := (Known_applyEff n n (Ffac (pairOpt r.factor)) (Ffac_name _)).2 hk1
    have b3 := block_bounds _ hw2 n (pairOpt r.bounds) hk2
    have hw3 := WF_applyEff hw2 n (Fbnd (pairOpt r.bounds)) (Fbnd_name _)
    have hk3 := (Known_applyEff n n (Fbnd (pairOpt r.bounds)) (Fbnd_name _)).2 hk2
    have b123 := (b1.append b2).append b3
    have hm := mode_invalid_out _ hw3 n (modeOpt r.mode) hk3 hv (priorOps n r.prior ++ rest)
    have := b123.then_out (modeOps n (modeOpt r.mode) ++ (priorOps n r.prior ++ rest))
    rw [he]
    simp only [List.append_assoc] at this ⊢
    rw [this.1]
    exact hm.1
  · intro hk hv
    have b1 := block_fit s hw n r hk
    have hw1 := WF_applyEff hw n (Ffit r) (Ffit_name r)
    have hk1 := (Known_applyEff (s := s) n n (Ffit r) (Ffit_name r)).2 hk
    have b2 := block_factor _ hw1 n (pairOpt r.factor) hk1
    have hw2 := WF_applyEff hw1 n (Ffac (pairOpt r.factor)) (Ffac_name _)
    have hk2 := (Known_applyEff n n (Ffac (pairOpt r.factor)) (Ffac_name _)).2 hk1
    have b3 := block_bounds _ hw2 n (pairOpt r.bounds) hk2
    have hw3 := WF_applyEff hw2 n (Fbnd (pairOpt r.bounds)) (Fbnd_name _)
    have hk3 := (Known_applyEff n n (Fbnd (pairOpt r.bounds)) (Fbnd_name _)).2 hk2
    have b4 := block_mode _ hw3 n (modeOpt r.mode) hk3 hv
    have hk4 := (Known_applyEff n n (Fmode (modeOpt r.mode)) (Fmode_name _)).2 hk3
    have b5 := block_prior _ n r.prior hk4
    have hall := b1.append (b2.append (b3.append (b4.append b5)))
    rw [he]
    have hst : applyEff (applyEff (applyEff (applyEff s n (Ffit r)) n (Ffac (pairOpt r.factor))) n (Fbnd (pairOpt r.bounds))) n
        (Fmode (modeOpt r.mode)) = applyEff s n (describeParam r) := by
      rw [applyEff_comp _ _ _ _ (Fbnd_name _), applyEff_comp _ _ _ _ (Ffac_name _), applyEff_comp _ _ _ _ (Ffit_name r)]
      congr 1
      funext p
      simp only [Function.comp_apply, describeParam_eq]
    rw [hst] at hall
    exact hall

/-- the whole fitting loop, parameter by parameter -/
def applyGrp (s : St String α) : List (String × Rec α) → St String α
  | [] => s
  | (n, r) :: t => applyGrp (applyRec s n r) t

theorem applyRec_names (s : St String α) (n : String) (r : Rec α) : tableNames (applyRec s n r) = tableNames s := by
  unfold applyRec withPrior
  cases r.prior <;> exact applyEff_names s n _ (describeParam_name r)

theorem grp_run : ∀ (grp : List (String × Rec α)) (s : St String α) (ops : List (Op String α)), WF s →
    fittingOps grp = some ops →
    ((runStop s ops).2.1 = .ok →
      (∀ nr ∈ grp, Known s nr.1 ∧ ModeValid (modeOpt nr.2.mode)) ∧ (runStop s ops).1 = applyGrp s grp) ∧
    ((∃ nr ∈ grp, ¬ Known s nr.1) → (runStop s ops).2.1 ≠ .ok) := by
  intro grp
  induction grp with
  | nil =>
    intro s ops _ h
    simp only [fittingOps, Option.some.injEq] at h
    subst h
    simp [runStop, applyGrp]
  | cons nr t ih =>
    intro s ops hw h
    obtain ⟨n, r⟩ := nr
    simp only [fittingOps] at h
    cases h1 : recOps n r with
    | none => simp [h1] at h
    | some a =>
      cases h2 : fittingOps t with
      | none => simp [h1, h2] at h
      | some b =>
        simp only [h1, h2, Option.some.injEq] at h
        subst h
        obtain ⟨r1, r2, r3⟩ := rec_run s hw n r a h1 b
        by_cases hk : Known s n
        · by_cases hv : ModeValid (modeOpt r.mode)
          · have blk := r3 hk hv
            have hw' : WF (applyRec s n r) := WF_of_tableNames (applyRec_names s n r) hw
            obtain ⟨i1, i2⟩ := ih (applyRec s n r) b hw' h2
            obtain ⟨o1, o2⟩ := blk.then_out b
            have hkn : ∀ m, Known (applyRec s n r) m ↔ Known s m :=
              fun m => Known_of_tableNames (applyRec_names s n r) m
            constructor
            · intro hok
              rw [o1] at hok
              obtain ⟨j1, j2⟩ := i1 hok
              refine ⟨?_, by rw [o2, j2]; rfl⟩
              intro x hx
              simp only [List.mem_cons] at hx
              rcases hx with rfl | hx
              · exact ⟨hk, hv⟩
              · exact ⟨(hkn x.1).1 (j1 x hx).1, (j1 x hx).2⟩
            · rintro ⟨x, hx, hxk⟩
              simp only [List.mem_cons] at hx
              rcases hx with rfl | hx
              · exact absurd hk hxk
              · rw [o1]
                exact i2 ⟨x, hx, fun hh => hxk ((hkn x.1).1 hh)⟩
          · have := r2 hk hv
            constructor
            · intro hok; rw [this] at hok; cases hok
            · intro _; rw [this]; decide
        · have := (r1 hk).1
          constructor
          · intro hok; rw [this] at hok; cases hok
          · intro _; rw [this]; decide

end

end Taurex.C07
