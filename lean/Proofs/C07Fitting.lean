/-
  Helper lemmas for Props/C07.lean, part 4: `ParameterParser.setup_optimizer` (TaurexModel/FittingSection.lean) composed with
  the optimizer state machine.
-/
import Proofs.C07Update
import TaurexModel.FittingSection

namespace Taurex.C07
open Taurex.Priors Taurex.OptimizerSM Taurex.FittingSection

section
variable {α : Type} [LT α] [DecidableLT α] [OfNat α 0] [Mul α] [Transc α]

/-! ### one settings call on a known name rewrites that name's tuple in both tables (one of them does not hold it) -/

/-- rewrite the tuple of `n` wherever it is -/
def applyEff (s : St String α) (n : String) (f : Param String α → Param String α) : St String α :=
  { s with model := modifyParam s.model n f, obs := modifyParam s.obs n f }

def Known (s : St String α) (n : String) : Prop := n ∈ names s.model ∨ n ∈ names s.obs

theorem withParam_known (s : St String α) (hw : WF s) (n : String) (f : Param String α → Param String α)
    (hk : Known s n) : withParam s n f = (applyEff s n f, .ok) := by
  unfold withParam ownerOf applyEff
  by_cases hm : hasName s.model n = true
  · have hno : n ∉ names s.obs := fun ho => hw.disj ho ((hasName_iff _ _).1 hm)
    simp [hm, table, setTable, modifyParam_not_mem s.obs n f hno]
  · have hm' : hasName s.model n = false := by simpa using hm
    have hnm : n ∉ names s.model := (hasName_false_iff _ _).1 hm'
    have ho : n ∈ names s.obs := by
      rcases hk with h | h
      · exact absurd h hnm
      · exact h
    have ho' : hasName s.obs n = true := (hasName_iff _ _).2 ho
    simp [hm', table, setTable, ho', modifyParam_not_mem s.model n f hnm]

theorem withParam_unknown (s : St String α) (n : String) (f : Param String α → Param String α)
    (hk : ¬ Known s n) : withParam s n f = (s, .keyError) := by
  have h1 : hasName s.model n = false := (hasName_false_iff _ _).2 (fun h => hk (Or.inl h))
  have h2 : hasName s.obs n = false := (hasName_false_iff _ _).2 (fun h => hk (Or.inr h))
  simp [withParam, ownerOf, table, h1, h2]

theorem hasName_owner_known (s : St String α) (n : String) (hk : Known s n) :
    hasName (table s (ownerOf s n)) n = true := by
  unfold ownerOf
  by_cases hm : hasName s.model n = true
  · simp [hm, table]
  · have hm' : hasName s.model n = false := by simpa using hm
    have hnm : n ∉ names s.model := (hasName_false_iff _ _).1 hm'
    rcases hk with h | h
    · exact absurd h hnm
    · simp [hm', table, (hasName_iff _ _).2 h]

theorem applyEff_names (s : St String α) (n : String) (f : Param String α → Param String α)
    (hf : ∀ p, (f p).name = p.name) : tableNames (applyEff s n f) = tableNames s := by
  simp [tableNames, applyEff, names_modifyParam _ _ _ hf]

theorem modifyParam_comp (ps : List (Param String α)) (n : String) (f g : Param String α → Param String α)
    (hf : ∀ p, (f p).name = p.name) : modifyParam (modifyParam ps n f) n g = modifyParam ps n (g ∘ f) := by
  unfold modifyParam
  rw [List.map_map]
  apply List.map_congr_left
  intro p _
  by_cases h : p.name = n
  · simp [h, hf]
  · simp [h]

theorem modifyParam_id (ps : List (Param String α)) (n : String) : modifyParam ps n id = ps := by
  unfold modifyParam
  conv => rhs; rw [← List.map_id ps]
  apply List.map_congr_left
  intro p _
  by_cases h : p.name = n <;> simp [h]

theorem modifyParam_congr (ps : List (Param String α)) (n : String) (f g : Param String α → Param String α)
    (h : ∀ p, f p = g p) : modifyParam ps n f = modifyParam ps n g := by
  have : f = g := funext h
  rw [this]

theorem applyEff_comp (s : St String α) (n : String) (f g : Param String α → Param String α)
    (hf : ∀ p, (f p).name = p.name) : applyEff (applyEff s n f) n g = applyEff s n (g ∘ f) := by
  simp [applyEff, modifyParam_comp _ _ _ _ hf]

theorem applyEff_id (s : St String α) (n : String) : applyEff s n id = s := by
  simp [applyEff, modifyParam_id]

theorem Known_of_tableNames {s s' : St String α} (h : tableNames s' = tableNames s) (n : String) :
    Known s' n ↔ Known s n := by
  simp only [tableNames, Prod.mk.injEq] at h
  unfold Known
  rw [h.1, h.2]

/-! ### `runStop` -/

theorem runStop_cons_ok (s s' : St String α) (op : Op String α) (ops : List (Op String α)) (h : step s op = (s', .ok)) :
    runStop s (op :: ops) = ((runStop s' ops).1, (runStop s' ops).2.1, op :: (runStop s' ops).2.2) := by
  simp [runStop, h]

theorem runStop_cons_err (s s' : St String α) (op : Op String α) (ops : List (Op String α)) (e : Out) (he : e ≠ .ok)
    (h : step s op = (s', e)) : runStop s (op :: ops) = (s', outOf e, [op]) := by
  cases e with
  | ok => exact absurd rfl he
  | keyError => simp [runStop, h]
  | valueError => simp [runStop, h]

/-- a first block that succeeds hands its state to the second block -/
theorem runStop_append_ok (l₁ : List (Op String α)) : ∀ (s : St String α) (l₂ : List (Op String α)),
    (runStop s l₁).2.1 = .ok →
    (runStop s (l₁ ++ l₂)).1 = (runStop (runStop s l₁).1 l₂).1 ∧
    (runStop s (l₁ ++ l₂)).2.1 = (runStop (runStop s l₁).1 l₂).2.1 := by
  induction l₁ with
  | nil => intro s l₂ _; simp [runStop]
  | cons op ops ih =>
    intro s l₂ h
    cases hr : (step s op).2 with
    | ok =>
      have hs : step s op = ((step s op).1, .ok) := by rw [← hr]
      rw [runStop_cons_ok s _ op ops hs] at h ⊢
      rw [List.cons_append, runStop_cons_ok s _ op (ops ++ l₂) hs]
      exact ih _ l₂ h
    | keyError =>
      have hs : step s op = ((step s op).1, .keyError) := by rw [← hr]
      rw [runStop_cons_err s _ op ops _ (by decide) hs] at h
      simp [outOf] at h
    | valueError =>
      have hs : step s op = ((step s op).1, .valueError) := by rw [← hr]
      rw [runStop_cons_err s _ op ops _ (by decide) hs] at h
      simp [outOf] at h

/-- a first block that fails stops everything -/
theorem runStop_append_err (l₁ : List (Op String α)) : ∀ (s : St String α) (l₂ : List (Op String α)),
    (runStop s l₁).2.1 ≠ .ok → (runStop s (l₁ ++ l₂)).2.1 ≠ .ok := by
  induction l₁ with
  | nil => intro s l₂ h; simp [runStop] at h
  | cons op ops ih =>
    intro s l₂ h
    cases hr : (step s op).2 with
    | ok =>
      have hs : step s op = ((step s op).1, .ok) := by rw [← hr]
      rw [runStop_cons_ok s _ op ops hs] at h
      rw [List.cons_append, runStop_cons_ok s _ op (ops ++ l₂) hs]
      exact ih _ l₂ h
    | keyError =>
      have hs : step s op = ((step s op).1, .keyError) := by rw [← hr]
      rw [List.cons_append, runStop_cons_err s _ op _ _ (by decide) hs]
      simp [outOf]
    | valueError =>
      have hs : step s op = ((step s op).1, .valueError) := by rw [← hr]
      rw [List.cons_append, runStop_cons_err s _ op _ _ (by decide) hs]
      simp [outOf]

end

section
variable {α : Type} [LT α] [DecidableLT α] [OfNat α 0] [Mul α] [Transc α]

/-! ### the calls made for one parameter -/

/-- a block of calls that all succeed and lead to `s'` -/
def Block (s : St String α) (l : List (Op String α)) (s' : St String α) : Prop :=
  (runStop s l).2.1 = .ok ∧ (runStop s l).1 = s'

theorem Block.nil (s : St String α) : Block s [] s := by simp [Block, runStop]

theorem Block.single (s s' : St String α) (op : Op String α) (h : step s op = (s', .ok)) : Block s [op] s' := by
  simp [Block, runStop, h]

theorem Block.append {s s₁ s₂ : St String α} {l₁ l₂ : List (Op String α)} (h₁ : Block s l₁ s₁) (h₂ : Block s₁ l₂ s₂) :
    Block s (l₁ ++ l₂) s₂ := by
  obtain ⟨ha, hb⟩ := runStop_append_ok l₁ s l₂ h₁.1
  rw [h₁.2] at ha hb
  exact ⟨by rw [hb]; exact h₂.1, by rw [ha]; exact h₂.2⟩

/-- after a successful block, the outcome of the whole is the outcome of the rest -/
theorem Block.then_out {s s₁ : St String α} {l₁ : List (Op String α)} (h₁ : Block s l₁ s₁) (l₂ : List (Op String α)) :
    (runStop s (l₁ ++ l₂)).2.1 = (runStop s₁ l₂).2.1 ∧ (runStop s (l₁ ++ l₂)).1 = (runStop s₁ l₂).1 := by
  obtain ⟨ha, hb⟩ := runStop_append_ok l₁ s l₂ h₁.1
  rw [h₁.2] at ha hb
  exact ⟨hb, ha⟩

def Ffit (r : Rec α) (p : Param String α) : Param String α := { p with fit := truthy r.fit }

def Ffac (fa : PairOpt α) (p : Param String α) : Param String α :=
  match fa with
  | .pair a b => { p with b0 := a * p.value, b1 := b * p.value }
  | _ => p

def Fbnd (bo : PairOpt α) (p : Param String α) : Param String α :=
  match bo with
  | .pair a b => { p with b0 := a, b1 := b }
  | _ => p

def Fmode (mo : ModeOpt) (p : Param String α) : Param String α :=
  match mo with
  | .mode m => { p with mode := (parseMode m).getD p.mode }
  | _ => p

theorem Ffit_name (r : Rec α) (p : Param String α) : (Ffit r p).name = p.name := rfl
theorem Ffac_name (fa : PairOpt α) (p : Param String α) : (Ffac fa p).name = p.name := by cases fa <;> rfl
theorem Fbnd_name (bo : PairOpt α) (p : Param String α) : (Fbnd bo p).name = p.name := by cases bo <;> rfl
theorem Fmode_name (mo : ModeOpt) (p : Param String α) : (Fmode mo p).name = p.name := by cases mo <;> rfl

theorem describeParam_eq (r : Rec α) (p : Param String α) :
    describeParam r p = Fmode (modeOpt r.mode) (Fbnd (pairOpt r.bounds) (Ffac (pairOpt r.factor) (Ffit r p))) := by
  unfold describeParam Fmode Fbnd Ffac Ffit
  cases pairOpt r.bounds <;> cases pairOpt r.factor <;> cases modeOpt r.mode <;> rfl

theorem describeParam_name (r : Rec α) (p : Param String α) : (describeParam r p).name = p.name := by
  rw [describeParam_eq, Fmode_name, Fbnd_name, Ffac_name, Ffit_name]

/-- WF and Known survive `applyEff` with a name-preserving function -/
theorem WF_applyEff {s : St String α} (hw : WF s) (n : String) (f : Param String α → Param String α)
    (hf : ∀ p, (f p).name = p.name) : WF (applyEff s n f) :=
  WF_of_tableNames (applyEff_names s n f hf) hw

theorem Known_applyEff {s : St String α} (n m : String) (f : Param String α → Param String α)
    (hf : ∀ p, (f p).name = p.name) : Known (applyEff s n f) m ↔ Known s m :=
  Known_of_tableNames (applyEff_names s n f hf) m

theorem block_fit (s : St String α) (hw : WF s) (n : String) (r : Rec α) (hk : Known s n) :
    Block s (fitOps n r) (applyEff s n (Ffit r)) := by
  unfold fitOps
  apply Block.single
  by_cases h : truthy r.fit = true
  · have hf : (fun p : Param String α => { p with fit := true }) = Ffit r := funext (fun p => by simp [Ffit, h])
    simp only [h, if_true, step]
    rw [withParam_known s hw n _ hk, hf]
  · have h' : truthy r.fit = false := by simpa using h
    have hf : (fun p : Param String α => { p with fit := false }) = Ffit r := funext (fun p => by simp [Ffit, h'])
    simp only [h', Bool.false_eq_true, if_false, step]
    rw [withParam_known s hw n _ hk, hf]

theorem block_factor (s : St String α) (hw : WF s) (n : String) (fa : PairOpt α) (hk : Known s n) :
    Block s (factorOps n fa) (applyEff s n (Ffac fa)) := by
  cases fa with
  | pair a b =>
    apply Block.single
    simp only [step]
    rw [withParam_known s hw n _ hk]
    rfl
  | skip =>
    have : applyEff s n (Ffac (PairOpt.skip : PairOpt α)) = s := applyEff_id s n
    rw [this]; exact Block.nil s
  | bad =>
    have : applyEff s n (Ffac (PairOpt.bad : PairOpt α)) = s := applyEff_id s n
    rw [this]; exact Block.nil s

theorem block_bounds (s : St String α) (hw : WF s) (n : String) (bo : PairOpt α) (hk : Known s n) :
    Block s (boundsOps n bo) (applyEff s n (Fbnd bo)) := by
  cases bo with
  | pair a b =>
    apply Block.single
    simp only [step]
    rw [withParam_known s hw n _ hk]
    rfl
  | skip =>
    have : applyEff s n (Fbnd (PairOpt.skip : PairOpt α)) = s := applyEff_id s n
    rw [this]; exact Block.nil s
  | bad =>
    have : applyEff s n (Fbnd (PairOpt.bad : PairOpt α)) = s := applyEff_id s n
    rw [this]; exact Block.nil s

/-- `set_mode` on a known name: ValueError for a string that is not a mode, otherwise the mode slot is rewritten -/
theorem step_setMode_known (s : St String α) (hw : WF s) (n m : String) (hk : Known s n) :
    step s (.setMode n m) = match parseMode m with
      | none => (s, .valueError)
      | some md => (applyEff s n (fun p => { p with mode := md }), .ok) := by
  have h := hasName_owner_known s n hk
  cases hp : parseMode m with
  | none => simp [step, h, hp]
  | some md =>
    have := withParam_known s hw n (fun p => { p with mode := md }) hk
    simp only [withParam, h, if_true] at this
    simp only [step, h, if_true, hp]
    exact this

/-- the mode is usable: absent, or one of the two mode strings -/
def ModeValid (mo : ModeOpt) : Prop :=
  match mo with
  | .mode m => parseMode m ≠ none
  | _ => True

theorem block_mode (s : St String α) (hw : WF s) (n : String) (mo : ModeOpt) (hk : Known s n) (hv : ModeValid mo) :
    Block s (modeOps n mo) (applyEff s n (Fmode mo)) := by
  cases mo with
  | mode m =>
    apply Block.single
    rw [step_setMode_known s hw n m hk]
    cases hp : parseMode m with
    | none => exact absurd hp hv
    | some md =>
      have hf : (fun p : Param String α => { p with mode := md }) = Fmode (ModeOpt.mode m) :=
        funext (fun p => by simp [Fmode, hp])
      simp only [hf]
  | skip =>
    have : applyEff s n (Fmode ModeOpt.skip) = s := applyEff_id s n
    rw [this]; exact Block.nil s
  | bad =>
    have : applyEff s n (Fmode ModeOpt.bad) = s := applyEff_id s n
    rw [this]; exact Block.nil s

theorem mode_invalid_out (s : St String α) (hw : WF s) (n : String) (mo : ModeOpt) (hk : Known s n) (hv : ¬ ModeValid mo)
    (rest : List (Op String α)) : (runStop s (modeOps n mo ++ rest)).2.1 = .valueError ∧ (runStop s (modeOps n mo ++ rest)).1 = s := by
  cases mo with
  | mode m =>
    have hp : parseMode m = none := by
      cases h : parseMode m with
      | none => rfl
      | some md => exact absurd (by simp [ModeValid, h]) hv
    have hs := step_setMode_known s hw n m hk
    rw [hp] at hs
    simp only [modeOps, List.cons_append, List.nil_append]
    rw [runStop_cons_err s s _ _ .valueError (by decide) hs]
    simp [outOf]
  | skip => exact absurd trivial hv
  | bad => exact absurd trivial hv

/-- `set_prior` on a known name -/
def withPrior (s : St String α) (n : String) : Option (Prior α) → St String α
  | none => s
  | some p => { s with userPriors := tset s.userPriors n p, fitPriors := tset s.fitPriors n p }

theorem block_prior (s : St String α) (n : String) (pr : Option (Prior α)) (hk : Known s n) :
    Block s (priorOps n pr) (withPrior s n pr) := by
  cases pr with
  | none => exact Block.nil s
  | some p =>
    apply Block.single
    simp [step, hasName_owner_known s n hk, withPrior]

end

section
variable {α : Type} [LT α] [DecidableLT α] [OfNat α 0] [Mul α] [Transc α]

/-- what the calls for one record do to the state -/
def applyRec (s : St String α) (n : String) (r : Rec α) : St String α :=
  withPrior (applyEff s n (describeParam r)) n r.prior

theorem recOps_eq (n : String) (r : Rec α) (ops : List (Op String α)) (h : recOps n r = some ops) :
    ops = fitOps n r ++ (factorOps n (pairOpt r.factor) ++ (boundsOps n (pairOpt r.bounds) ++
      (modeOps n (modeOpt r.mode) ++ priorOps n r.prior))) := by
  unfold recOps at h
  split at h
  · cases h
  · simp only [Option.some.injEq] at h
    rw [← h]
    simp [List.append_assoc]

/-- the three ways the calls for one record can end -/
theorem rec_run (s : St String α) (hw : WF s) (n : String) (r : Rec α) (ops : List (Op String α))
    (h : recOps n r = some ops) (rest : List (Op String α)) :
    (¬ Known s n → (runStop s (ops ++ rest)).2.1 = .keyError ∧ (runStop s (ops ++ rest)).1 = s) ∧
    (Known s n → ¬ ModeValid (modeOpt r.mode) → (runStop s (ops ++ rest)).2.1 = .valueError) ∧
    (Known s n → ModeValid (modeOpt r.mode) → Block s ops (applyRec s n r)) := by
  have he := recOps_eq n r ops h
  refine ⟨?_, ?_, ?_⟩
  · intro hk
    rw [he]
    simp only [fitOps, List.cons_append, List.nil_append]
    have hs : ∀ f : Param String α → Param String α, withParam s n f = (s, .keyError) :=
      fun f => withParam_unknown s n f hk
    by_cases ht : truthy r.fit = true
    · simp only [ht, if_true]
      rw [runStop_cons_err s s _ _ .keyError (by decide) (by simp [step, hs])]
      simp [outOf]
    · have ht' : truthy r.fit = false := by simpa using ht
      simp only [ht', Bool.false_eq_true, if_false]
      rw [runStop_cons_err s s _ _ .keyError (by decide) (by simp [step, hs])]
      simp [outOf]
  · intro hk hv
    have b1 := block_fit s hw n r hk
    have hw1 := WF_applyEff hw n (Ffit r) (Ffit_name r)
    have hk1 := (Known_applyEff (s := s) n n (Ffit r) (Ffit_name r)).2 hk
    have b2 := block_factor _ hw1 n (pairOpt r.factor) hk1
    have hw2 := WF_applyEff hw1 n (Ffac (pairOpt r.factor)) (Ffac_name _)
    have hk2 := (Known_applyEff n n (Ffac (pairOpt r.factor)) (Ffac_name _)).2 hk1
    have b3 := block_bounds _ hw2 n (pairOpt r.bounds) hk2
    have hw3 := WF_applyEff hw2 n (Fbnd (pairOpt r.bounds)) (Fbnd_name _)
    have hk3 := (Known_applyEff n n (Fbnd (pairOpt r.bounds)) (Fbnd_name _)).2 hk2
    have b123 := (b1.append b2).append b3
    have hm := mode_invalid_out _ hw3 n (modeOpt r.mode) hk3 hv (priorOps n r.prior ++ rest)
    have := b123.then_out (modeOps n (modeOpt r.mode) ++ (priorOps n r.prior ++ rest))
    rw [he]
    simp only [List.append_assoc] at this ⊢
    rw [this.1]
    exact hm.1
  · intro hk hv
    have b1 := block_fit s hw n r hk
    have hw1 := WF_applyEff hw n (Ffit r) (Ffit_name r)
    have hk1 := (Known_applyEff (s := s) n n (Ffit r) (Ffit_name r)).2 hk
    have b2 := block_factor _ hw1 n (pairOpt r.factor) hk1
    have hw2 := WF_applyEff hw1 n (Ffac (pairOpt r.factor)) (Ffac_name _)
    have hk2 := (Known_applyEff n n (Ffac (pairOpt r.factor)) (Ffac_name _)).2 hk1
    have b3 := block_bounds _ hw2 n (pairOpt r.bounds) hk2
    have hw3 := WF_applyEff hw2 n (Fbnd (pairOpt r.bounds)) (Fbnd_name _)
    have hk3 := (Known_applyEff n n (Fbnd (pairOpt r.bounds)) (Fbnd_name _)).2 hk2
    have b4 := block_mode _ hw3 n (modeOpt r.mode) hk3 hv
    have hk4 := (Known_applyEff n n (Fmode (modeOpt r.mode)) (Fmode_name _)).2 hk3
    have b5 := block_prior _ n r.prior hk4
    have hall := b1.append (b2.append (b3.append (b4.append b5)))
    rw [he]
    have hst : applyEff (applyEff (applyEff (applyEff s n (Ffit r)) n (Ffac (pairOpt r.factor))) n (Fbnd (pairOpt r.bounds))) n
        (Fmode (modeOpt r.mode)) = applyEff s n (describeParam r) := by
      rw [applyEff_comp _ _ _ _ (Fbnd_name _), applyEff_comp _ _ _ _ (Ffac_name _), applyEff_comp _ _ _ _ (Ffit_name r)]
      congr 1
      funext p
      simp only [Function.comp_apply, describeParam_eq]
    rw [hst] at hall
    exact hall

/-- the whole fitting loop, parameter by parameter -/
def applyGrp (s : St String α) : List (String × Rec α) → St String α
  | [] => s
  | (n, r) :: t => applyGrp (applyRec s n r) t

theorem applyRec_names (s : St String α) (n : String) (r : Rec α) : tableNames (applyRec s n r) = tableNames s := by
  unfold applyRec withPrior
  cases r.prior <;> exact applyEff_names s n _ (describeParam_name r)

theorem grp_run : ∀ (grp : List (String × Rec α)) (s : St String α) (ops : List (Op String α)), WF s →
    fittingOps grp = some ops →
    ((runStop s ops).2.1 = .ok →
      (∀ nr ∈ grp, Known s nr.1 ∧ ModeValid (modeOpt nr.2.mode)) ∧ (runStop s ops).1 = applyGrp s grp) ∧
    ((∃ nr ∈ grp, ¬ Known s nr.1) → (runStop s ops).2.1 ≠ .ok) := by
  intro grp
  induction grp with
  | nil =>
    intro s ops _ h
    simp only [fittingOps, Option.some.injEq] at h
    subst h
    simp [runStop, applyGrp]
  | cons nr t ih =>
    intro s ops hw h
    obtain ⟨n, r⟩ := nr
    simp only [fittingOps] at h
    cases h1 : recOps n r with
    | none => simp [h1] at h
    | some a =>
      cases h2 : fittingOps t with
      | none => simp [h1, h2] at h
      | some b =>
        simp only [h1, h2, Option.some.injEq] at h
        subst h
        obtain ⟨r1, r2, r3⟩ := rec_run s hw n r a h1 b
        by_cases hk : Known s n
        · by_cases hv : ModeValid (modeOpt r.mode)
          · have blk := r3 hk hv
            have hw' : WF (applyRec s n r) := WF_of_tableNames (applyRec_names s n r) hw
            obtain ⟨i1, i2⟩ := ih (applyRec s n r) b hw' h2
            obtain ⟨o1, o2⟩ := blk.then_out b
            have hkn : ∀ m, Known (applyRec s n r) m ↔ Known s m :=
              fun m => Known_of_tableNames (applyRec_names s n r) m
            constructor
            · intro hok
              rw [o1] at hok
              obtain ⟨j1, j2⟩ := i1 hok
              refine ⟨?_, by rw [o2, j2]; rfl⟩
              intro x hx
              simp only [List.mem_cons] at hx
              rcases hx with rfl | hx
              · exact ⟨hk, hv⟩
              · exact ⟨(hkn x.1).1 (j1 x hx).1, (j1 x hx).2⟩
            · rintro ⟨x, hx, hxk⟩
              simp only [List.mem_cons] at hx
              rcases hx with rfl | hx
              · exact absurd hk hxk
              · rw [o1]
                exact i2 ⟨x, hx, fun hh => hxk ((hkn x.1).1 hh)⟩
          · have := r2 hk hv
            constructor
            · intro hok; rw [this] at hok; cases hok
            · intro _; rw [this]; decide
        · have := (r1 hk).1
          constructor
          · intro hok; rw [this] at hok; cases hok
          · intro _; rw [this]; decide

end

section
variable {α : Type} [LT α] [DecidableLT α] [OfNat α 0] [Mul α] [Transc α]

/-! ### what the fitting loop leaves behind, field by field -/

def gkeys (grp : List (String × Rec α)) : List String := grp.map (·.1)

def foldTable (grp : List (String × Rec α)) (ps : List (Param String α)) : List (Param String α) :=
  grp.foldl (fun ps nr => modifyParam ps nr.1 (describeParam nr.2)) ps

def foldPriors (t : Table String α) (grp : List (String × Rec α)) : Table String α :=
  grp.foldl (fun t nr => match nr.2.prior with
    | some p => tset t nr.1 p
    | none => t) t

theorem applyRec_fields (s : St String α) (n : String) (r : Rec α) :
    (applyRec s n r).model = modifyParam s.model n (describeParam r) ∧
    (applyRec s n r).obs = modifyParam s.obs n (describeParam r) ∧
    (applyRec s n r).dmodel = s.dmodel ∧ (applyRec s n r).dobs = s.dobs ∧
    (applyRec s n r).userPriors = (match r.prior with | some p => tset s.userPriors n p | none => s.userPriors) ∧
    (applyRec s n r).compiled = s.compiled ∧ (applyRec s n r).compiledPriors = s.compiledPriors ∧
    (applyRec s n r).derivedCompiled = s.derivedCompiled := by
  unfold applyRec withPrior applyEff
  cases r.prior <;> simp

theorem applyGrp_fields : ∀ (grp : List (String × Rec α)) (s : St String α),
    (applyGrp s grp).model = foldTable grp s.model ∧ (applyGrp s grp).obs = foldTable grp s.obs ∧
    (applyGrp s grp).dmodel = s.dmodel ∧ (applyGrp s grp).dobs = s.dobs ∧
    (applyGrp s grp).userPriors = foldPriors s.userPriors grp := by
  intro grp
  induction grp with
  | nil => intro s; simp [applyGrp, foldTable, foldPriors]
  | cons nr t ih =>
    intro s
    obtain ⟨n, r⟩ := nr
    obtain ⟨f1, f2, f3, f4, f5, _⟩ := applyRec_fields s n r
    obtain ⟨i1, i2, i3, i4, i5⟩ := ih (applyRec s n r)
    simp only [applyGrp, foldTable, foldPriors, List.foldl_cons] at *
    rw [i1, i2, i3, i4, i5, f1, f2, f3, f4, f5]
    simp

theorem getRec_none_of_not_mem (grp : List (String × Rec α)) (n : String) (h : n ∉ gkeys grp) : getRec grp n = none := by
  induction grp with
  | nil => rfl
  | cons kr t ih =>
    obtain ⟨k, r⟩ := kr
    simp only [gkeys, List.map_cons, List.mem_cons, not_or] at h
    have hk : ¬ k = n := fun e => h.1 e.symm
    simp only [getRec, hk, if_false]
    exact ih h.2

/-- with distinct names, the calls made one parameter after the other amount to rewriting every mentioned tuple once -/
theorem foldTable_eq_describe : ∀ (grp : List (String × Rec α)) (ps : List (Param String α)), (gkeys grp).Nodup →
    foldTable grp ps = describeTable grp ps := by
  intro grp
  induction grp with
  | nil =>
    intro ps _
    simp [foldTable, describeTable, getRec]
  | cons kr t ih =>
    intro ps hnd
    obtain ⟨n, r⟩ := kr
    simp only [gkeys, List.map_cons, List.nodup_cons] at hnd
    have hstep : foldTable ((n, r) :: t) ps = foldTable t (modifyParam ps n (describeParam r)) := by
      simp [foldTable]
    rw [hstep, ih _ hnd.2]
    unfold describeTable modifyParam
    rw [List.map_map]
    apply List.map_congr_left
    intro p _
    by_cases hp : p.name = n
    · have hnone : getRec t n = none := getRec_none_of_not_mem t n hnd.1
      simp [hp, describeParam_name, getRec, hnone]
    · have hp' : ¬ n = p.name := fun e => hp e.symm
      simp [hp, getRec, hp']

theorem tset_not_mem (t : Table String α) (n : String) (p : Prior α) (h : n ∉ t.map (·.1)) : tset t n p = t ++ [(n, p)] := by
  induction t with
  | nil => rfl
  | cons kq t ih =>
    obtain ⟨k, q⟩ := kq
    simp only [List.map_cons, List.mem_cons, not_or] at h
    have hk : ¬ k = n := fun e => h.1 e.symm
    simp [tset, hk, ih h.2]

theorem describePriors_keys (grp : List (String × Rec α)) : ∀ k ∈ (describePriors grp).map (·.1), k ∈ gkeys grp := by
  induction grp with
  | nil => intro k hk; simp [describePriors] at hk
  | cons nr t ih =>
    obtain ⟨n, r⟩ := nr
    intro k hk
    cases hp : r.prior with
    | none =>
      simp only [describePriors, hp] at hk
      simp only [gkeys, List.map_cons, List.mem_cons]
      right; exact ih k hk
    | some p =>
      simp only [describePriors, hp, List.map_cons, List.mem_cons] at hk
      simp only [gkeys, List.map_cons, List.mem_cons]
      rcases hk with hk | hk
      · left; exact hk
      · right; exact ih k hk

theorem foldPriors_eq : ∀ (grp : List (String × Rec α)) (t : Table String α), (gkeys grp).Nodup →
    (∀ k ∈ gkeys grp, k ∉ t.map (·.1)) → foldPriors t grp = t ++ describePriors grp := by
  intro grp
  induction grp with
  | nil => intro t _ _; simp [foldPriors, describePriors]
  | cons nr rest ih =>
    intro t hnd hdis
    obtain ⟨n, r⟩ := nr
    simp only [gkeys, List.map_cons, List.nodup_cons] at hnd
    have hn : n ∉ t.map (·.1) := hdis n (by simp [gkeys])
    have hrest : ∀ k ∈ gkeys rest, k ∉ t.map (·.1) := fun k hk => hdis k (by simp only [gkeys, List.map_cons, List.mem_cons]; right; exact hk)
    cases hp : r.prior with
    | none =>
      have : foldPriors t ((n, r) :: rest) = foldPriors t rest := by simp [foldPriors, hp]
      rw [this, ih t hnd.2 hrest]
      simp [describePriors, hp]
    | some p =>
      have : foldPriors t ((n, r) :: rest) = foldPriors (tset t n p) rest := by simp [foldPriors, hp]
      rw [this, tset_not_mem t n p hn]
      rw [ih (t ++ [(n, p)]) hnd.2 ?_]
      · simp [describePriors, hp]
      · intro k hk
        simp only [List.map_append, List.map_cons, List.map_nil, List.mem_append, List.mem_singleton, not_or]
        refine ⟨hrest k hk, ?_⟩
        intro e
        apply hnd.1
        rw [← e]; exact hk

/-! ### the records have distinct names -/

theorem gkeys_updRec (acc : List (String × Rec α)) (n : String) (f : Rec α → Rec α) :
    gkeys (updRec acc n f) = if n ∈ gkeys acc then gkeys acc else gkeys acc ++ [n] := by
  induction acc with
  | nil => simp [updRec, gkeys]
  | cons kr t ih =>
    obtain ⟨k, r⟩ := kr
    by_cases hk : k = n
    · simp [updRec, gkeys, hk]
    · have hk' : ¬ n = k := fun e => hk e.symm
      simp only [updRec, hk, if_false, gkeys, List.map_cons, List.mem_cons, hk', false_or] at ih ⊢
      by_cases hm : n ∈ List.map (fun x => x.1) t
      · simp only [hm, if_true] at ih ⊢; rw [ih]
      · simp only [hm, if_false] at ih ⊢; rw [ih]; simp

theorem nodup_updRec (acc : List (String × Rec α)) (n : String) (f : Rec α → Rec α) (h : (gkeys acc).Nodup) :
    (gkeys (updRec acc n f)).Nodup := by
  rw [gkeys_updRec]
  by_cases hm : n ∈ gkeys acc
  · simp [hm, h]
  · simp only [hm, if_false]
    apply List.nodup_append.2
    refine ⟨h, by simp, ?_⟩
    intro a ha b hb hab
    simp only [List.mem_singleton] at hb
    rw [hab, hb] at ha
    exact hm ha

theorem nodup_parseFitting (mkPrior : OptVal α → Option (Prior α)) : ∀ (ents : List (String × OptVal α))
    (acc grp : List (String × Rec α)), (gkeys acc).Nodup → parseFitting mkPrior ents acc = .ok grp → (gkeys grp).Nodup := by
  intro ents
  induction ents with
  | nil =>
    intro acc grp h hp
    simp only [parseFitting, Except.ok.injEq] at hp
    rw [← hp]; exact h
  | cons kv rest ih =>
    intro acc grp h hp
    obtain ⟨k, v⟩ := kv
    simp only [parseFitting] at hp
    cases hs : splitKey k with
    | none => simp [hs] at hp
    | some ab =>
      obtain ⟨a, b⟩ := ab
      simp only [hs] at hp
      cases ho : setOpt mkPrior ⟨a, b, v⟩ ((getRec acc a).getD {}) with
      | none => simp [ho] at hp
      | some r =>
        simp only [ho] at hp
        exact ih _ grp (nodup_updRec acc a _ h) hp

end

section
variable {α : Type} [LT α] [DecidableLT α] [OfNat α 0] [Mul α] [Transc α]

/-! ### the [Derive] loop -/

def dnames (ds : List (Derived String)) : List String := ds.map (·.name)

/-- no derived parameter of the model shares its name with one of the observation -/
def DisjD (s : St String α) : Prop := ∀ n, n ∈ dnames s.dmodel → n ∉ dnames s.dobs

def KnownD (s : St String α) (n : String) : Prop := n ∈ dnames s.dmodel ∨ n ∈ dnames s.dobs

def setCompute (n : String) (c : Bool) (d : Derived String) : Derived String :=
  if d.name = n then { d with compute := c } else d

def applyD (s : St String α) (n : String) (c : Bool) : St String α :=
  { s with dmodel := s.dmodel.map (setCompute n c), dobs := s.dobs.map (setCompute n c) }

theorem map_setCompute_not_mem (ds : List (Derived String)) (n : String) (c : Bool) (h : n ∉ dnames ds) :
    ds.map (setCompute n c) = ds := by
  conv => rhs; rw [← List.map_id ds]
  apply List.map_congr_left
  intro d hd
  have : d.name ≠ n := by
    intro e; apply h; rw [← e]; exact List.mem_map_of_mem (f := (·.name)) hd
  simp [setCompute, this]

theorem dnames_setCompute (ds : List (Derived String)) (n : String) (c : Bool) :
    dnames (ds.map (setCompute n c)) = dnames ds := by
  unfold dnames
  rw [List.map_map]
  apply List.map_congr_left
  intro d _
  by_cases h : d.name = n <;> simp [setCompute, h]

theorem hasDerived_iff' (ds : List (Derived String)) (n : String) : hasDerived ds n = true ↔ n ∈ dnames ds :=
  hasDerived_iff ds n

theorem withDerived_known (s : St String α) (hd : DisjD s) (n : String) (c : Bool) (hk : KnownD s n) :
    withDerived s n c = (applyD s n c, .ok) := by
  unfold withDerived applyD
  by_cases hm : hasDerived s.dmodel n = true
  · have hno : n ∉ dnames s.dobs := hd n ((hasDerived_iff' _ _).1 hm)
    have := map_setCompute_not_mem s.dobs n c hno
    simp only [hm, if_true]
    unfold setCompute at this ⊢
    rw [this]
  · have hm' : hasDerived s.dmodel n = false := by simpa using hm
    have hnm : n ∉ dnames s.dmodel := fun h => hm ((hasDerived_iff' _ _).2 h)
    have ho : n ∈ dnames s.dobs := by
      rcases hk with h | h
      · exact absurd h hnm
      · exact h
    have ho' : hasDerived s.dobs n = true := (hasDerived_iff' _ _).2 ho
    have := map_setCompute_not_mem s.dmodel n c hnm
    simp only [hm', Bool.false_eq_true, if_false, ho', if_true]
    unfold setCompute at this ⊢
    rw [this]

theorem withDerived_unknown (s : St String α) (n : String) (c : Bool) (hk : ¬ KnownD s n) :
    withDerived s n c = (s, .keyError) := by
  have h1 : hasDerived s.dmodel n = false := by
    cases h : hasDerived s.dmodel n
    · rfl
    · exact absurd (Or.inl ((hasDerived_iff' _ _).1 h)) hk
  have h2 : hasDerived s.dobs n = false := by
    cases h : hasDerived s.dobs n
    · rfl
    · exact absurd (Or.inr ((hasDerived_iff' _ _).1 h)) hk
  simp [withDerived, h1, h2]

theorem DisjD_applyD {s : St String α} (h : DisjD s) (n : String) (c : Bool) : DisjD (applyD s n c) := by
  intro m hm
  simp only [applyD, dnames_setCompute] at hm ⊢
  exact h m hm

theorem KnownD_applyD (s : St String α) (n m : String) (c : Bool) : KnownD (applyD s n c) m ↔ KnownD s m := by
  simp [KnownD, applyD, dnames_setCompute]

/-- the derive loop: records without a `compute` value make no call -/
def applyDs (s : St String α) : List (String × Option (OptVal α)) → St String α
  | [] => s
  | (_, none) :: t => applyDs s t
  | (n, some v) :: t => applyDs (applyD s n (truthy v)) t

theorem step_derived_known (s : St String α) (hd : DisjD s) (n : String) (v : OptVal α) (hk : KnownD s n) :
    step s (if truthy v then Op.enableDerived n else Op.disableDerived n) = (applyD s n (truthy v), .ok) := by
  by_cases ht : truthy v = true
  · simp only [ht, if_true, step]; exact withDerived_known s hd n true hk
  · have ht' : truthy v = false := by simpa using ht
    simp only [ht', Bool.false_eq_true, if_false, step]; exact withDerived_known s hd n false hk

theorem step_derived_unknown (s : St String α) (n : String) (v : OptVal α) (hk : ¬ KnownD s n) :
    step s (if truthy v then Op.enableDerived n else Op.disableDerived n) = (s, .keyError) := by
  by_cases ht : truthy v = true
  · simp only [ht, if_true, step]; exact withDerived_unknown s n true hk
  · have ht' : truthy v = false := by simpa using ht
    simp only [ht', Bool.false_eq_true, if_false, step]; exact withDerived_unknown s n false hk

theorem derive_run : ∀ (drecs : List (String × Option (OptVal α))) (s : St String α), DisjD s →
    ((runStop s (deriveOps drecs)).2.1 = .ok →
      (∀ nv ∈ drecs, nv.2 ≠ none → KnownD s nv.1) ∧ (runStop s (deriveOps drecs)).1 = applyDs s drecs) ∧
    ((∃ nv ∈ drecs, nv.2 ≠ none ∧ ¬ KnownD s nv.1) → (runStop s (deriveOps drecs)).2.1 ≠ .ok) := by
  intro drecs
  induction drecs with
  | nil => intro s _; simp [deriveOps, runStop, applyDs]
  | cons nv t ih =>
    intro s hd
    obtain ⟨n, ov⟩ := nv
    cases ov with
    | none =>
      obtain ⟨i1, i2⟩ := ih s hd
      simp only [deriveOps, applyDs]
      constructor
      · intro hok
        obtain ⟨j1, j2⟩ := i1 hok
        refine ⟨?_, j2⟩
        intro x hx hne
        simp only [List.mem_cons] at hx
        rcases hx with rfl | hx
        · exact absurd rfl hne
        · exact j1 x hx hne
      · rintro ⟨x, hx, hne, hxk⟩
        simp only [List.mem_cons] at hx
        rcases hx with rfl | hx
        · exact absurd rfl hne
        · exact i2 ⟨x, hx, hne, hxk⟩
    | some v =>
      simp only [deriveOps, applyDs]
      by_cases hk : KnownD s n
      · have hs := step_derived_known s hd n v hk
        rw [runStop_cons_ok s _ _ _ hs]
        obtain ⟨i1, i2⟩ := ih (applyD s n (truthy v)) (DisjD_applyD hd n _)
        constructor
        · intro hok
          obtain ⟨j1, j2⟩ := i1 hok
          refine ⟨?_, j2⟩
          intro x hx hne
          simp only [List.mem_cons] at hx
          rcases hx with rfl | hx
          · exact hk
          · exact (KnownD_applyD s n x.1 _).1 (j1 x hx hne)
        · rintro ⟨x, hx, hne, hxk⟩
          simp only [List.mem_cons] at hx
          rcases hx with rfl | hx
          · exact absurd hk hxk
          · exact i2 ⟨x, hx, hne, fun hh => hxk ((KnownD_applyD s n x.1 _).1 hh)⟩
      · have hs := step_derived_unknown s n v hk
        rw [runStop_cons_err s s _ _ .keyError (by decide) hs]
        constructor
        · intro hok; simp [outOf] at hok
        · intro _; simp [outOf]

def dkeys (drecs : List (String × Option (OptVal α))) : List String := drecs.map (·.1)

theorem getD_none_of_not_mem (drecs : List (String × Option (OptVal α))) (n : String) (h : n ∉ dkeys drecs) :
    FittingSection.getD drecs n = none := by
  induction drecs with
  | nil => rfl
  | cons kc t ih =>
    obtain ⟨k, c⟩ := kc
    simp only [dkeys, List.map_cons, List.mem_cons, not_or] at h
    have hk : ¬ k = n := fun e => h.1 e.symm
    simp only [FittingSection.getD, hk, if_false]
    exact ih h.2

theorem applyDs_fields : ∀ (drecs : List (String × Option (OptVal α))) (s : St String α), (dkeys drecs).Nodup →
    (applyDs s drecs).dmodel = describeDerived drecs s.dmodel ∧ (applyDs s drecs).dobs = describeDerived drecs s.dobs ∧
    (applyDs s drecs).model = s.model ∧ (applyDs s drecs).obs = s.obs ∧ (applyDs s drecs).userPriors = s.userPriors := by
  intro drecs
  induction drecs with
  | nil =>
    intro s _
    simp [applyDs, describeDerived, FittingSection.getD]
  | cons nv t ih =>
    intro s hnd
    obtain ⟨n, ov⟩ := nv
    simp only [dkeys, List.map_cons, List.nodup_cons] at hnd
    have hnone : FittingSection.getD t n = none := getD_none_of_not_mem t n hnd.1
    have key : ∀ (c : Option (OptVal α)) (ds : List (Derived String)),
        describeDerived t (match c with | some v => ds.map (setCompute n (truthy v)) | none => ds) =
          describeDerived ((n, c) :: t) ds := by
      intro c ds
      cases c with
      | none =>
        unfold describeDerived
        apply List.map_congr_left
        intro d _
        by_cases hd : n = d.name
        · subst hd
          simp [FittingSection.getD, hnone]
        · simp [FittingSection.getD, hd]
      | some v =>
        unfold describeDerived
        rw [List.map_map]
        apply List.map_congr_left
        intro d _
        by_cases hd : d.name = n
        · simp [setCompute, hd, FittingSection.getD, hnone]
        · have hd' : ¬ n = d.name := fun e => hd e.symm
          simp [setCompute, hd, FittingSection.getD, hd']
    cases ov with
    | none =>
      obtain ⟨i1, i2, i3, i4, i5⟩ := ih s hnd.2
      simp only [applyDs]
      refine ⟨?_, ?_, i3, i4, i5⟩
      · rw [i1]; exact key none s.dmodel
      · rw [i2]; exact key none s.dobs
    | some v =>
      obtain ⟨i1, i2, i3, i4, i5⟩ := ih (applyD s n (truthy v)) hnd.2
      simp only [applyDs]
      refine ⟨?_, ?_, by rw [i3]; rfl, by rw [i4]; rfl, by rw [i5]; rfl⟩
      · rw [i1]; exact key (some v) s.dmodel
      · rw [i2]; exact key (some v) s.dobs

theorem dkeys_updD (acc : List (String × Option (OptVal α))) (l : Line α) :
    dkeys (updD acc l) = if l.name ∈ dkeys acc then dkeys acc else dkeys acc ++ [l.name] := by
  induction acc with
  | nil => simp [updD, dkeys]
  | cons kc t ih =>
    obtain ⟨k, c⟩ := kc
    by_cases hk : k = l.name
    · simp [updD, dkeys, hk]
    · have hk' : ¬ l.name = k := fun e => hk e.symm
      simp only [updD, hk, if_false, dkeys, List.map_cons, List.mem_cons, hk', false_or] at ih ⊢
      by_cases hm : l.name ∈ List.map (fun x => x.1) t
      · simp only [hm, if_true] at ih ⊢; rw [ih]
      · simp only [hm, if_false] at ih ⊢; rw [ih]; simp

theorem nodup_deriveRecs : ∀ (ls : List (Line α)) (acc : List (String × Option (OptVal α))), (dkeys acc).Nodup →
    (dkeys (deriveRecs ls acc)).Nodup := by
  intro ls
  induction ls with
  | nil => intro acc h; exact h
  | cons l rest ih =>
    intro acc h
    simp only [deriveRecs]
    apply ih
    rw [dkeys_updD]
    by_cases hm : l.name ∈ dkeys acc
    · simp [hm, h]
    · simp only [hm, if_false]
      apply List.nodup_append.2
      refine ⟨h, by simp, ?_⟩
      intro a ha b hb hab
      simp only [List.mem_singleton] at hb
      rw [hab, hb] at ha
      exact hm ha

end

section
variable {α : Type} [LT α] [DecidableLT α] [OfNat α 0] [Mul α] [Transc α]

/-! ### `setup_optimizer` as a whole -/

theorem parseFitting_error_ne_ok (mkPrior : OptVal α → Option (Prior α)) : ∀ (ents : List (String × OptVal α))
    (acc : List (String × Rec α)) (e : SetupOut), parseFitting mkPrior ents acc = .error e → e ≠ .ok := by
  intro ents
  induction ents with
  | nil => intro acc e h; simp [parseFitting] at h
  | cons kv rest ih =>
    intro acc e h
    obtain ⟨k, v⟩ := kv
    simp only [parseFitting] at h
    cases hs : splitKey k with
    | none => simp only [hs, Except.error.injEq] at h; rw [← h]; decide
    | some ab =>
      obtain ⟨a, b⟩ := ab
      simp only [hs] at h
      cases ho : setOpt mkPrior ⟨a, b, v⟩ ((getRec acc a).getD {}) with
      | none => simp only [ho, Except.error.injEq] at h; rw [← h]; decide
      | some r => simp only [ho] at h; exact ih _ e h

theorem mem_gkeys_updRec (acc : List (String × Rec α)) (n m : String) (f : Rec α → Rec α) (h : m ∈ gkeys acc ∨ m = n) :
    m ∈ gkeys (updRec acc n f) := by
  rw [gkeys_updRec]
  by_cases hm : n ∈ gkeys acc
  · simp only [hm, if_true]
    rcases h with h | h
    · exact h
    · rw [h]; exact hm
  · simp only [hm, if_false, List.mem_append, List.mem_singleton]
    exact h

/-- every parameter named by a line has a record -/
theorem parseFitting_names (mkPrior : OptVal α → Option (Prior α)) : ∀ (ents : List (String × OptVal α))
    (acc grp : List (String × Rec α)), parseFitting mkPrior ents acc = .ok grp →
    (∀ m ∈ gkeys acc, m ∈ gkeys grp) ∧
    ∀ kv ∈ ents, ∀ a b, splitKey kv.1 = some (a, b) → a ∈ gkeys grp := by
  intro ents
  induction ents with
  | nil =>
    intro acc grp h
    simp only [parseFitting, Except.ok.injEq] at h
    subst h
    exact ⟨fun m hm => hm, fun kv hkv => by simp at hkv⟩
  | cons kv rest ih =>
    intro acc grp h
    obtain ⟨k, v⟩ := kv
    simp only [parseFitting] at h
    cases hs : splitKey k with
    | none => simp [hs] at h
    | some ab =>
      obtain ⟨a, b⟩ := ab
      simp only [hs] at h
      cases ho : setOpt mkPrior ⟨a, b, v⟩ ((getRec acc a).getD {}) with
      | none => simp [ho] at h
      | some r =>
        simp only [ho] at h
        obtain ⟨i1, i2⟩ := ih _ grp h
        refine ⟨fun m hm => i1 m (mem_gkeys_updRec acc a m _ (Or.inl hm)), ?_⟩
        intro kv hkv a' b' hsp
        simp only [List.mem_cons] at hkv
        rcases hkv with rfl | hkv
        · simp only [hs, Option.some.injEq, Prod.mk.injEq] at hsp
          rw [← hsp.1]
          exact i1 a (mem_gkeys_updRec acc a a _ (Or.inr rfl))
        · exact i2 kv hkv a' b' hsp

/-- a key that does not split makes `generate_fitting_parameters` raise -/
theorem parseFitting_bad_key (mkPrior : OptVal α → Option (Prior α)) : ∀ (ents : List (String × OptVal α))
    (acc : List (String × Rec α)), (∃ kv ∈ ents, splitKey kv.1 = none) → ∃ e, parseFitting mkPrior ents acc = .error e := by
  intro ents
  induction ents with
  | nil => intro acc h; obtain ⟨kv, hkv, _⟩ := h; simp at hkv
  | cons kv rest ih =>
    intro acc h
    obtain ⟨k, v⟩ := kv
    simp only [parseFitting]
    cases hs : splitKey k with
    | none => exact ⟨_, rfl⟩
    | some ab =>
      obtain ⟨a, b⟩ := ab
      simp only
      cases ho : setOpt mkPrior ⟨a, b, v⟩ ((getRec acc a).getD {}) with
      | none => exact ⟨_, rfl⟩
      | some r =>
        simp only
        apply ih
        obtain ⟨kv, hkv, hb⟩ := h
        simp only [List.mem_cons] at hkv
        rcases hkv with rfl | hkv
        · simp [hs] at hb
        · exact ⟨kv, hkv, hb⟩

theorem applyGrp_names : ∀ (grp : List (String × Rec α)) (s : St String α), tableNames (applyGrp s grp) = tableNames s := by
  intro grp
  induction grp with
  | nil => intro s; rfl
  | cons nr t ih =>
    intro s
    obtain ⟨n, r⟩ := nr
    simp only [applyGrp]
    rw [ih, applyRec_names]

/-- the stages of a successful `setup_optimizer` -/
theorem setup_ok_stages (mkPrior : OptVal α → Option (Prior α)) (s : St String α) (hw : WF s) (hd : DisjD s)
    (fitting derive : List (String × OptVal α)) (hok : (setupOptimizer mkPrior s fitting derive).2.1 = .ok) :
    ∃ grp dl fops, parseFitting mkPrior fitting [] = .ok grp ∧ splitAll derive = some dl ∧ fittingOps grp = some fops ∧
      (runStop s fops).2.1 = .ok ∧
      (runStop (applyGrp s grp) (deriveOps (deriveRecs dl []))).2.1 = .ok ∧
      (setupOptimizer mkPrior s fitting derive).1 = applyDs (applyGrp s grp) (deriveRecs dl []) := by
  unfold setupOptimizer at hok ⊢
  cases hp : parseFitting mkPrior fitting [] with
  | error e =>
    simp only [hp] at hok
    exact absurd hok (parseFitting_error_ne_ok mkPrior fitting [] e hp)
  | ok grp =>
    simp only [hp] at hok ⊢
    cases hf : fittingOps grp with
    | none => simp [hf] at hok
    | some fops =>
      simp only [hf] at hok ⊢
      cases hr : (runStop s fops).2.1 with
      | ok =>
        simp only [hr] at hok ⊢
        obtain ⟨g1, _⟩ := grp_run grp s fops hw hf
        obtain ⟨_, hst⟩ := g1 hr
        cases hsd : splitAll derive with
        | none => simp [hsd] at hok
        | some dl =>
          simp only [hsd] at hok ⊢
          rw [hst] at hok ⊢
          have hd' : DisjD (applyGrp s grp) := by
            obtain ⟨_, _, f3, f4, _⟩ := applyGrp_fields grp s
            intro n hn
            simp only [f3, f4] at hn ⊢
            exact hd n hn
          obtain ⟨d1, _⟩ := derive_run (deriveRecs dl []) (applyGrp s grp) hd'
          exact ⟨grp, dl, fops, rfl, rfl, hf, hr, hok, (d1 hok).2⟩
      | keyError => simp [hr] at hok
      | valueError => simp [hr] at hok
      | priorError => simp [hr] at hok
      | unsupported => simp [hr] at hok

/-- after a successful `setup_optimizer` on a state without user priors, the settings are the ones the sections describe -/
theorem setup_ok_settings (mkPrior : OptVal α → Option (Prior α)) (s : St String α) (hw : WF s) (hd : DisjD s)
    (hu : s.userPriors = []) (fitting derive : List (String × OptVal α))
    (hok : (setupOptimizer mkPrior s fitting derive).2.1 = .ok) :
    ∃ grp dl, parseFitting mkPrior fitting [] = .ok grp ∧ splitAll derive = some dl ∧
      settings (setupOptimizer mkPrior s fitting derive).1 = sectionSettings s grp (deriveRecs dl []) ∧
      WF (setupOptimizer mkPrior s fitting derive).1 := by
  obtain ⟨grp, dl, fops, hp, hsd, _, _, _, hst⟩ := setup_ok_stages mkPrior s hw hd fitting derive hok
  refine ⟨grp, dl, hp, hsd, ?_, ?_⟩
  · rw [hst]
    have hgn : (gkeys grp).Nodup := nodup_parseFitting mkPrior fitting [] grp (by simp [gkeys]) hp
    have hdn : (dkeys (deriveRecs dl ([] : List (String × Option (OptVal α))))).Nodup :=
      nodup_deriveRecs dl [] (by simp [dkeys])
    obtain ⟨a1, a2, a3, a4, a5⟩ := applyDs_fields (deriveRecs dl []) (applyGrp s grp) hdn
    obtain ⟨g1, g2, g3, g4, g5⟩ := applyGrp_fields grp s
    simp only [settings, sectionSettings, a1, a2, a3, a4, a5, g1, g2, g3, g4, g5, hu]
    rw [foldTable_eq_describe grp _ hgn, foldTable_eq_describe grp _ hgn,
      foldPriors_eq grp [] hgn (by intro k _; simp)]
    simp
  · rw [hst]
    obtain ⟨a1, a2, a3, a4, a5⟩ := applyDs_fields (deriveRecs dl []) (applyGrp s grp)
      (nodup_deriveRecs dl [] (by simp [dkeys]))
    have hnames : tableNames (applyGrp s grp) = tableNames s := applyGrp_names grp s
    unfold WF
    rw [a3, a4]
    exact WF_of_tableNames hnames hw

end

section
variable {α : Type} [LT α] [DecidableLT α] [OfNat α 0] [Mul α] [Transc α]

/-! ### unknown names and malformed keys -/

theorem splitAll_none_of_bad : ∀ (ents : List (String × OptVal α)), (∃ kv ∈ ents, splitKey kv.1 = none) →
    splitAll ents = none := by
  intro ents
  induction ents with
  | nil => intro h; obtain ⟨kv, hkv, _⟩ := h; simp at hkv
  | cons kv rest ih =>
    intro h
    obtain ⟨k, v⟩ := kv
    simp only [splitAll]
    cases hs : splitKey k with
    | none => rfl
    | some ab =>
      have : splitAll rest = none := by
        apply ih
        obtain ⟨kv, hkv, hb⟩ := h
        simp only [List.mem_cons] at hkv
        rcases hkv with rfl | hkv
        · simp [hs] at hb
        · exact ⟨kv, hkv, hb⟩
      simp [this]

theorem splitAll_mem : ∀ (ents : List (String × OptVal α)) (ls : List (Line α)), splitAll ents = some ls →
    ∀ kv ∈ ents, ∀ a b, splitKey kv.1 = some (a, b) → (⟨a, b, kv.2⟩ : Line α) ∈ ls := by
  intro ents
  induction ents with
  | nil => intro ls _ kv hkv; simp at hkv
  | cons kv rest ih =>
    intro ls h x hx a b hsp
    obtain ⟨k, v⟩ := kv
    simp only [splitAll] at h
    cases hs : splitKey k with
    | none => simp [hs] at h
    | some ab =>
      cases hr : splitAll rest with
      | none => simp [hs, hr] at h
      | some ls' =>
        obtain ⟨a', b'⟩ := ab
        simp only [hs, hr, Option.some.injEq] at h
        subst h
        simp only [List.mem_cons] at hx
        rcases hx with rfl | hx
        · simp only [hs, Option.some.injEq, Prod.mk.injEq] at hsp
          simp [hsp.1, hsp.2]
        · exact List.mem_cons_of_mem _ (ih ls' hr x hx a b hsp)

theorem updD_keeps_some (acc : List (String × Option (OptVal α))) (l : Line α) (a : String)
    (h : ∃ v, (a, some v) ∈ acc) : ∃ v, (a, some v) ∈ updD acc l := by
  induction acc with
  | nil => obtain ⟨v, hv⟩ := h; simp at hv
  | cons kc t ih =>
    obtain ⟨k, c⟩ := kc
    obtain ⟨v, hv⟩ := h
    simp only [List.mem_cons] at hv
    by_cases hk : k = l.name
    · simp only [updD, hk, if_true]
      rcases hv with hv | hv
      · simp only [Prod.mk.injEq] at hv
        by_cases ho : l.opt = "compute"
        · exact ⟨l.val, by simp [ho, hv.1, ← hk]⟩
        · exact ⟨v, by simp [ho, hv.1, ← hk, ← hv.2]⟩
      · exact ⟨v, List.mem_cons_of_mem _ hv⟩
    · simp only [updD, hk, if_false]
      rcases hv with hv | hv
      · exact ⟨v, by simp [hv]⟩
      · obtain ⟨v', hv'⟩ := ih ⟨v, hv⟩
        exact ⟨v', List.mem_cons_of_mem _ hv'⟩

theorem updD_sets_some (acc : List (String × Option (OptVal α))) (l : Line α) (ho : l.opt = "compute") :
    ∃ v, (l.name, some v) ∈ updD acc l := by
  induction acc with
  | nil => exact ⟨l.val, by simp [updD, ho]⟩
  | cons kc t ih =>
    obtain ⟨k, c⟩ := kc
    by_cases hk : k = l.name
    · exact ⟨l.val, by simp [updD, hk, ho]⟩
    · obtain ⟨v, hv⟩ := ih
      exact ⟨v, by simp only [updD, hk, if_false]; exact List.mem_cons_of_mem _ hv⟩

theorem deriveRecs_some : ∀ (ls : List (Line α)) (acc : List (String × Option (OptVal α))) (a : String),
    ((∃ l ∈ ls, l.opt = "compute" ∧ l.name = a) ∨ (∃ v, (a, some v) ∈ acc)) → ∃ v, (a, some v) ∈ deriveRecs ls acc := by
  intro ls
  induction ls with
  | nil =>
    intro acc a h
    rcases h with ⟨l, hl, _⟩ | h
    · simp at hl
    · exact h
  | cons l rest ih =>
    intro acc a h
    simp only [deriveRecs]
    apply ih
    rcases h with ⟨x, hx, ho, hn⟩ | h
    · simp only [List.mem_cons] at hx
      rcases hx with rfl | hx
      · right; rw [← hn]; exact updD_sets_some acc x ho
      · left; exact ⟨x, hx, ho, hn⟩
    · right; exact updD_keeps_some acc l a h

theorem mem_gkeys_exists (grp : List (String × Rec α)) (a : String) (h : a ∈ gkeys grp) : ∃ r, (a, r) ∈ grp := by
  simp only [gkeys, List.mem_map] at h
  obtain ⟨x, hx, rfl⟩ := h
  exact ⟨x.2, hx⟩

/-- everything that makes `setup_optimizer` raise because of a name or a key -/
theorem setup_errors (mkPrior : OptVal α → Option (Prior α)) (s : St String α) (hw : WF s) (hd : DisjD s)
    (fitting derive : List (String × OptVal α)) :
    ((∃ kv ∈ fitting, splitKey kv.1 = none) →
      (setupOptimizer mkPrior s fitting derive).2.1 ≠ .ok ∧ (setupOptimizer mkPrior s fitting derive).1 = s ∧
      (setupOptimizer mkPrior s fitting derive).2.2 = []) ∧
    ((∃ kv ∈ fitting, ∃ a b, splitKey kv.1 = some (a, b) ∧ ¬ Known s a) →
      (setupOptimizer mkPrior s fitting derive).2.1 ≠ .ok) ∧
    ((∃ kv ∈ derive, splitKey kv.1 = none) → (setupOptimizer mkPrior s fitting derive).2.1 ≠ .ok) ∧
    ((∃ kv ∈ derive, ∃ a, splitKey kv.1 = some (a, "compute") ∧ ¬ KnownD s a) →
      (setupOptimizer mkPrior s fitting derive).2.1 ≠ .ok) := by
  refine ⟨?_, ?_, ?_, ?_⟩
  · intro h
    obtain ⟨e, he⟩ := parseFitting_bad_key mkPrior fitting [] h
    unfold setupOptimizer
    simp only [he]
    exact ⟨parseFitting_error_ne_ok mkPrior fitting [] e he, trivial, trivial⟩
  · rintro ⟨kv, hkv, a, b, hsp, hk⟩ hok
    obtain ⟨grp, dl, fops, hp, _, hf, hr, _, _⟩ := setup_ok_stages mkPrior s hw hd fitting derive hok
    obtain ⟨g1, _⟩ := grp_run grp s fops hw hf
    obtain ⟨r, hr'⟩ := mem_gkeys_exists grp a ((parseFitting_names mkPrior fitting [] grp hp).2 kv hkv a b hsp)
    exact hk ((g1 hr).1 (a, r) hr').1
  · intro h hok
    obtain ⟨_, dl, _, _, hsd, _, _, _, _⟩ := setup_ok_stages mkPrior s hw hd fitting derive hok
    rw [splitAll_none_of_bad derive h] at hsd
    cases hsd
  · rintro ⟨kv, hkv, a, hsp, hk⟩ hok
    obtain ⟨grp, dl, _, _, hsd, _, _, hdr, _⟩ := setup_ok_stages mkPrior s hw hd fitting derive hok
    have hmem := splitAll_mem derive dl hsd kv hkv a "compute" hsp
    obtain ⟨v, hv⟩ := deriveRecs_some dl [] a (Or.inl ⟨_, hmem, rfl, rfl⟩)
    have hd' : DisjD (applyGrp s grp) := by
      obtain ⟨_, _, f3, f4, _⟩ := applyGrp_fields grp s
      intro n hn
      simp only [f3, f4] at hn ⊢
      exact hd n hn
    obtain ⟨d1, _⟩ := derive_run (deriveRecs dl []) (applyGrp s grp) hd'
    have hkd := (d1 hdr).1 (a, some v) hv (by simp)
    obtain ⟨_, _, f3, f4, _⟩ := applyGrp_fields grp s
    apply hk
    unfold KnownD at hkd ⊢
    rw [f3, f4] at hkd
    exact hkd

end

end Taurex.C07
