/-
  C12 — Guillot 2010 profile: lower bound of eta and positivity of T^4 (helper lemmas for Props/C12.lean: guillot_positive).
  The exponential integral E2 is an external (scipy.special.expn); the lemmas need only `0 ≤ E2(x) ≤ exp(-x)/(1+x)`, a classical
  bound that the C12 harness validates against scipy on every run.
-/
import Proofs.RealInst
import TaurexModel.Temperature
import Mathlib.Analysis.SpecialFunctions.Exp
import Mathlib.Tactic.Linarith
import Mathlib.Tactic.FieldSimp
import Mathlib.Tactic.Ring
import Mathlib.Tactic.Positivity

namespace Taurex.C12G
open Taurex.Temperature

/-- core inequality: with `x = γτ`, `E = exp(-x) ∈ (0,1]`, `0 ≤ e2 ≤ E/(1+x)`:
    the bracket `2/(3γ)(1+(x/2-1)E) + (2γ/3)(1-τ²/2) e2` is non-negative -/
theorem eta_ge (gamma tau e2 : ℝ) (hg : 0 < gamma) (ht : 0 ≤ tau) (he0 : 0 ≤ e2)
    (he1 : e2 ≤ Real.exp (-(gamma * tau)) / (1 + gamma * tau)) : 2 / 3 ≤ eta gamma tau e2 := by
  have hx : 0 ≤ gamma * tau := mul_nonneg hg.le ht
  have hE0 : 0 < Real.exp (-(gamma * tau)) := Real.exp_pos _
  have hE1 : Real.exp (-(gamma * tau)) ≤ 1 := by
    rw [Real.exp_le_one_iff]; linarith
  have h1x : 0 < 1 + gamma * tau := by linarith
  simp only [eta, exp_real]
  have hexp : Real.exp (-1 * gamma * tau) = Real.exp (-(gamma * tau)) := by congr 1; ring
  rw [hexp]
  set E := Real.exp (-(gamma * tau)) with hEdef
  -- part1 - 2/3 ≥ 0
  have hA : 0 ≤ 1 + (gamma * tau / 2 - 1) * E := by nlinarith
  have h3g : 0 < 3 * gamma := by linarith
  by_cases hc : 0 ≤ 1 - tau * tau / 2
  · have hB : 0 ≤ 2 * gamma / 3 * (1 - tau * tau / 2) * e2 := by positivity
    have hA' : 0 ≤ 2 / (3 * gamma) * (1 + (gamma * tau / 2 - 1) * E) := by positivity
    linarith
  · have hc : 1 - tau * tau / 2 < 0 := not_le.1 hc
    -- e2 ≤ E/(1+x)  and the coefficient is negative
    have hcoef : 2 * gamma / 3 * (1 - tau * tau / 2) ≤ 0 := by
      have : 0 ≤ 2 * gamma / 3 := by positivity
      nlinarith
    have hB : 2 * gamma / 3 * (1 - tau * tau / 2) * (E / (1 + gamma * tau))
        ≤ 2 * gamma / 3 * (1 - tau * tau / 2) * e2 := by
      apply mul_le_mul_of_nonpos_left he1 hcoef
    have key : 0 ≤ 2 / (3 * gamma) * (1 + (gamma * tau / 2 - 1) * E)
        + 2 * gamma / 3 * (1 - tau * tau / 2) * (E / (1 + gamma * tau)) := by
      have : 2 / (3 * gamma) * (1 + (gamma * tau / 2 - 1) * E)
        + 2 * gamma / 3 * (1 - tau * tau / 2) * (E / (1 + gamma * tau))
        = (2 * ((1 + gamma * tau) * (1 + (gamma * tau / 2 - 1) * E) + (gamma * gamma - (gamma * tau) * (gamma * tau) / 2) * E))
          / (3 * gamma * (1 + gamma * tau)) := by
        field_simp
      rw [this]
      apply div_nonneg _ (by positivity)
      have hg2 : 0 ≤ gamma * gamma * E := by positivity
      nlinarith [mul_nonneg hx hE0.le, mul_nonneg (mul_nonneg hx hx) hE0.le]
    linarith


/-- `T4 ≥ (T_int⁴ + T_irr⁴)/2`: positive as soon as one of the two temperatures is -/
theorem guillotT4_pos (q : GuillotParams ℝ) (tau e21 e22 : ℝ)
    (hk : 0 < q.kappaIr) (h1 : 0 < q.kappaV1) (h2 : 0 < q.kappaV2)
    (hpos : q.tIrr ≠ 0 ∨ q.tInt ≠ 0) (ha0 : 0 ≤ q.alpha) (ha1 : q.alpha ≤ 1) (ht : 0 ≤ tau)
    (he10 : 0 ≤ e21) (he11 : e21 ≤ Real.exp (-(q.kappaV1 / q.kappaIr * tau)) / (1 + q.kappaV1 / q.kappaIr * tau))
    (he20 : 0 ≤ e22) (he21 : e22 ≤ Real.exp (-(q.kappaV2 / q.kappaIr * tau)) / (1 + q.kappaV2 / q.kappaIr * tau)) :
    0 < guillotT4 q tau e21 e22 := by
  have hg1 : 0 < q.kappaV1 / q.kappaIr := div_pos h1 hk
  have hg2 : 0 < q.kappaV2 / q.kappaIr := div_pos h2 hk
  have e1 := eta_ge _ tau e21 hg1 ht he10 he11
  have e2 := eta_ge _ tau e22 hg2 ht he20 he21
  simp only [guillotT4, pow4]
  have hI : 0 ≤ q.tInt * q.tInt * q.tInt * q.tInt := by
    have : q.tInt * q.tInt * q.tInt * q.tInt = (q.tInt * q.tInt) * (q.tInt * q.tInt) := by ring
    rw [this]; exact mul_self_nonneg _
  have hR : 0 ≤ q.tIrr * q.tIrr * q.tIrr * q.tIrr := by
    have : q.tIrr * q.tIrr * q.tIrr * q.tIrr = (q.tIrr * q.tIrr) * (q.tIrr * q.tIrr) := by ring
    rw [this]; exact mul_self_nonneg _
  have hsum : 0 < q.tInt * q.tInt * q.tInt * q.tInt + q.tIrr * q.tIrr * q.tIrr * q.tIrr := by
    rcases hpos with h | h
    · have : 0 < q.tIrr * q.tIrr * q.tIrr * q.tIrr := by
        have h2 : 0 < q.tIrr * q.tIrr := mul_self_pos.2 h
        have : q.tIrr * q.tIrr * q.tIrr * q.tIrr = (q.tIrr * q.tIrr) * (q.tIrr * q.tIrr) := by ring
        rw [this]; exact mul_pos h2 h2
      linarith
    · have : 0 < q.tInt * q.tInt * q.tInt * q.tInt := by
        have h2 : 0 < q.tInt * q.tInt := mul_self_pos.2 h
        have : q.tInt * q.tInt * q.tInt * q.tInt = (q.tInt * q.tInt) * (q.tInt * q.tInt) := by ring
        rw [this]; exact mul_pos h2 h2
      linarith
  set I := q.tInt * q.tInt * q.tInt * q.tInt
  set R := q.tIrr * q.tIrr * q.tIrr * q.tIrr
  set n1 := eta (q.kappaV1 / q.kappaIr) tau e21
  set n2 := eta (q.kappaV2 / q.kappaIr) tau e22
  have hA : 3 * I / 4 * (2 / 3) ≤ 3 * I / 4 * (2 / 3 + tau) := by
    apply mul_le_mul_of_nonneg_left (by linarith) (by positivity)
  have hB : 3 * R / 4 * (1 - q.alpha) * (2 / 3) ≤ 3 * R / 4 * (1 - q.alpha) * n1 := by
    apply mul_le_mul_of_nonneg_left e1
    have : 0 ≤ 1 - q.alpha := by linarith
    positivity
  have hC : 3 * R / 4 * q.alpha * (2 / 3) ≤ 3 * R / 4 * q.alpha * n2 := by
    apply mul_le_mul_of_nonneg_left e2 (by positivity)
  nlinarith

theorem zipWith_map_zip {β γ : Type} (f : ℝ → β × β → γ) (a b : ℝ → β) (l : List ℝ) :
    List.zipWith f l ((l.map a).zip (l.map b)) = l.map (fun p => f p (a p, b p)) := by
  induction l with
  | nil => rfl
  | cons x xs ih => simp [ih]


end Taurex.C12G
