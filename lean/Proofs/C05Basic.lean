/-
  Helper lemmas for C05 / C17 over the real carrier: the insertion sort (`argsort`), sums, min/max.
-/
import Mathlib.Tactic.Linarith
import Mathlib.Tactic.Ring
import Mathlib.Tactic.FieldSimp
import Mathlib.Algebra.Order.BigOperators.Group.List
import Mathlib.Algebra.BigOperators.Group.List.Basic
import Mathlib.Data.List.Nodup
import Proofs.RealInst
import TaurexModel.Binning

namespace Taurex.Binning
open List

/-! ### sums, min, max -/

theorem sumL_eq_sum (l : List ℝ) : sumL l = l.sum := by
  induction l with
  | nil => rfl
  | cons x t ih => simp only [sumL, List.foldr_cons, List.sum_cons] at *; rw [ih]

theorem mn_eq_min (a b : ℝ) : mn a b = min a b := by
  unfold mn; split <;> rename_i h
  · exact (min_eq_left h).symm
  · exact (min_eq_right (le_of_not_ge h)).symm

theorem mx_eq_max (a b : ℝ) : mx a b = max a b := by
  unfold mx; split <;> rename_i h
  · exact (max_eq_right h).symm
  · exact (max_eq_left (le_of_not_ge h)).symm

theorem absv_eq_abs (x : ℝ) : absv x = |x| := by
  unfold absv; split <;> rename_i h
  · exact (abs_of_neg h).symm
  · exact (abs_of_nonneg (le_of_not_gt h)).symm

/-! ### insertion sort by a real key -/

section sort
variable {β : Type} (key : β → ℝ)

theorem insertBy_perm (x : β) (l : List β) : insertBy key x l ~ x :: l := by
  induction l with
  | nil => exact Perm.refl _
  | cons y t ih =>
    unfold insertBy
    split
    · exact Perm.refl _
    · exact (Perm.cons y ih).trans (Perm.swap x y t)

theorem sortBy_perm (l : List β) : sortBy key l ~ l := by
  induction l with
  | nil => exact Perm.refl _
  | cons x t ih =>
    show insertBy key x (sortBy key t) ~ x :: t
    exact (insertBy_perm key x _).trans (Perm.cons x ih)

theorem insertBy_sorted (x : β) (l : List β) (h : l.Pairwise (fun u v => key u ≤ key v)) :
    (insertBy key x l).Pairwise (fun u v => key u ≤ key v) := by
  induction l with
  | nil => simp [insertBy]
  | cons y t ih =>
    unfold insertBy
    rw [List.pairwise_cons] at h
    split
    · rename_i hxy
      refine List.Pairwise.cons ?_ (List.Pairwise.cons h.1 h.2)
      intro z hz
      rcases List.mem_cons.1 hz with rfl | hz
      · exact hxy
      · exact le_trans hxy (h.1 z hz)
    · rename_i hxy
      have hyx : key y ≤ key x := le_of_lt (lt_of_not_ge hxy)
      refine List.Pairwise.cons ?_ (ih h.2)
      intro z hz
      have : z ∈ x :: t := (insertBy_perm key x t).subset hz
      rcases List.mem_cons.1 this with rfl | hz
      · exact hyx
      · exact h.1 z hz

theorem sortBy_sorted (l : List β) : (sortBy key l).Pairwise (fun u v => key u ≤ key v) := by
  induction l with
  | nil => simp [sortBy]
  | cons x t ih => exact insertBy_sorted key x _ ih

/-- a list that is already sorted is left alone (the sort is stable) -/
theorem sortBy_of_sorted (l : List β) (h : l.Pairwise (fun u v => key u ≤ key v)) : sortBy key l = l := by
  induction l with
  | nil => rfl
  | cons x t ih =>
    rw [List.pairwise_cons] at h
    show insertBy key x (sortBy key t) = x :: t
    rw [ih h.2]
    cases t with
    | nil => rfl
    | cons y t' =>
      unfold insertBy
      rw [if_pos (h.1 y (List.mem_cons_self))]

/-- with distinct keys the sorted list does not depend on the input order -/
theorem sortBy_eq_of_perm {l₁ l₂ : List β} (hp : l₁ ~ l₂) (hd : (l₁.map key).Nodup) :
    sortBy key l₁ = sortBy key l₂ := by
  have hinj : ∀ u ∈ l₁, ∀ v ∈ l₁, key u = key v → u = v := List.inj_on_of_nodup_map hd
  refine List.Perm.eq_of_pairwise (le := fun u v => key u ≤ key v) ?_ (sortBy_sorted key l₁)
    (sortBy_sorted key l₂) (((sortBy_perm key l₁).trans hp).trans (sortBy_perm key l₂).symm)
  intro u v hu hv h1 h2
  have hu' : u ∈ l₁ := (sortBy_perm key l₁).subset hu
  have hv' : v ∈ l₁ := hp.symm.subset ((sortBy_perm key l₂).subset hv)
  exact hinj u hu' v hv' (le_antisymm h1 h2)

/-- with distinct keys the sorted list is strictly increasing in the key -/
theorem sortBy_strict (l : List β) (hd : (l.map key).Nodup) :
    (sortBy key l).Pairwise (fun u v => key u < key v) := by
  have hs := sortBy_sorted key l
  have hd' : ((sortBy key l).map key).Nodup := ((sortBy_perm key l).map key).nodup_iff.2 hd
  rw [List.nodup_iff_pairwise_ne, List.pairwise_map] at hd'
  exact (hs.and hd').imp (fun h => lt_of_le_of_ne h.1 h.2)

end sort

end Taurex.Binning
