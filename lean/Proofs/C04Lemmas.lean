/-
  Helper lemmas for C04: `searchsorted` on strictly increasing lists, the bracketing pair, and the
  "between the nodes" bounds of the four interpolation kernels.
-/
import Mathlib.Tactic.Linarith
import Mathlib.Tactic.Ring
import Mathlib.Tactic.FieldSimp
import Mathlib.Tactic.Positivity
import Proofs.RealInst
import TaurexModel.Interp

namespace Taurex.C04L
open Taurex.Interp

/-- strictly increasing list -/
def Sorted (g : List ℝ) : Prop := g.Pairwise (· < ·)

theorem sorted_getD_lt {g : List ℝ} (h : Sorted g) {i j : Nat} (hij : i < j) (hj : j < g.length) :
    g.getD i 0 < g.getD j 0 := by
  have hi : i < g.length := lt_trans hij hj
  rw [← List.getElem_eq_getD (h := hi) 0, ← List.getElem_eq_getD (h := hj) 0]
  exact List.pairwise_iff_getElem.1 h i j hi hj hij

theorem sorted_getD_le {g : List ℝ} (h : Sorted g) {i j : Nat} (hij : i ≤ j) (hj : j < g.length) :
    g.getD i 0 ≤ g.getD j 0 := by
  rcases Nat.lt_or_eq_of_le hij with h1 | h1
  · exact (sorted_getD_lt h h1 hj).le
  · subst h1; exact le_refl _

/-- on a strictly increasing list the elements `< v` are exactly the first `searchLeft g v` ones -/
theorem lt_searchLeft_iff (g : List ℝ) (h : Sorted g) (v : ℝ) (i : Nat) (hi : i < g.length) :
    i < searchLeft g v ↔ g.getD i 0 < v := by
  induction g generalizing i with
  | nil => simp at hi
  | cons a l ih =>
    have hl : Sorted l := (List.pairwise_cons.1 h).2
    have ha : ∀ x ∈ l, a < x := (List.pairwise_cons.1 h).1
    unfold searchLeft at *
    rw [List.countP_cons]
    by_cases hav : a < v
    · cases i with
      | zero => simp [hav]
      | succ k =>
        have hk : k < l.length := by simpa using hi
        simp only [hav, decide_true, if_true, List.getD_cons_succ]
        rw [← ih hl k hk]; omega
    · have hz : l.countP (fun x => decide (x < v)) = 0 := by
        rw [List.countP_eq_zero]
        intro x hx
        have := ha x hx
        simp only [decide_eq_true_eq, not_lt]
        linarith [not_lt.1 hav]
      cases i with
      | zero => simp [hav, hz]
      | succ k =>
        have hk : k < l.length := by simpa using hi
        have hx : a < l.getD k 0 := by
          rw [← List.getElem_eq_getD (h := hk) 0]; exact ha _ (List.getElem_mem hk)
        simp only [hav, decide_false, hz, List.getD_cons_succ]
        constructor
        · intro h0; simp at h0
        · intro h0; exfalso; linarith [not_lt.1 hav]

theorem searchLeft_le_length (g : List ℝ) (v : ℝ) : searchLeft g v ≤ g.length := by
  unfold searchLeft; exact List.countP_le_length

/-- `find_closest_pair` returns adjacent in-range indices -/
theorem pair_adjacent (g : List ℝ) (v : ℝ) (hn : 2 ≤ g.length) :
    (findClosestPair g v).2 = (findClosestPair g v).1 + 1 ∧ (findClosestPair g v).2 < g.length := by
  unfold findClosestPair
  simp only
  omega

/-- inside the grid the pair brackets the value -/
theorem pair_brackets (g : List ℝ) (h : Sorted g) (v : ℝ) (hn : 2 ≤ g.length)
    (hlo : g.getD 0 0 ≤ v) (hhi : v ≤ g.getD (g.length - 1) 0) :
    g.getD (findClosestPair g v).1 0 ≤ v ∧ v ≤ g.getD (findClosestPair g v).2 0 := by
  have hk := searchLeft_le_length g v
  unfold findClosestPair
  simp only
  set k := searchLeft g v with hkdef
  by_cases h0 : k = 0
  · -- v ≤ g[0], so v = g[0]
    have : ¬ g.getD 0 0 < v := by
      rw [← lt_searchLeft_iff g h v 0 (by omega)]; omega
    have hv : v = g.getD 0 0 := le_antisymm (not_lt.1 this) hlo
    have e1 : max (min (g.length - 1) k) 1 = 1 := by omega
    rw [e1]
    constructor
    · simpa using hlo
    · rw [hv]; exact sorted_getD_le h (by omega) (by omega)
  · by_cases hkn : k = g.length
    · have e1 : max (min (g.length - 1) k) 1 = g.length - 1 := by omega
      rw [e1]
      constructor
      · have : g.getD (g.length - 1 - 1) 0 < v := by
          rw [← lt_searchLeft_iff g h v _ (by omega)]; omega
        exact this.le
      · exact hhi
    · have e1 : max (min (g.length - 1) k) 1 = k := by omega
      rw [e1]
      constructor
      · have : g.getD (k - 1) 0 < v := by
          rw [← lt_searchLeft_iff g h v _ (by omega)]; omega
        exact this.le
      · have : ¬ g.getD k 0 < v := by
          rw [← lt_searchLeft_iff g h v k (by omega)]; omega
        exact not_lt.1 this

/-- below the grid the pair is `(0, 1)` -/
theorem pair_below (g : List ℝ) (h : Sorted g) (v : ℝ) (hn : 2 ≤ g.length) (hlo : v ≤ g.getD 0 0) :
    findClosestPair g v = (0, 1) := by
  have : searchLeft g v = 0 := by
    by_contra hne
    have := (lt_searchLeft_iff g h v 0 (by omega)).1 (by omega)
    linarith
  unfold findClosestPair
  simp only [this]
  have : max (min (g.length - 1) 0) 1 = 1 := by omega
  rw [this]

/-- the number of elements below the node `g[j]` is `j` -/
theorem searchLeft_node (g : List ℝ) (h : Sorted g) (j : Nat) (hj : j < g.length) :
    searchLeft g (g.getD j 0) = j := by
  have hk := searchLeft_le_length g (g.getD j 0)
  apply le_antisymm
  · by_contra hc
    have := (lt_searchLeft_iff g h (g.getD j 0) j hj).1 (by omega)
    exact lt_irrefl _ this
  · by_contra hc
    have hlt : searchLeft g (g.getD j 0) < j := by omega
    have : ¬ g.getD (searchLeft g (g.getD j 0)) 0 < g.getD j 0 := by
      rw [← lt_searchLeft_iff g h _ _ (by omega)]; omega
    exact this (sorted_getD_lt h hlt hj)

/-! ### kernels stay between their nodes -/

theorem convex2_between (a b s : ℝ) (hs0 : 0 ≤ s) (hs1 : s ≤ 1) :
    min a b ≤ (1 - s) * a + s * b ∧ (1 - s) * a + s * b ≤ max a b := by
  constructor
  · nlinarith [mul_nonneg hs0 (sub_nonneg.2 (min_le_right a b)),
               mul_nonneg (sub_nonneg.2 hs1) (sub_nonneg.2 (min_le_left a b))]
  · nlinarith [mul_nonneg hs0 (sub_nonneg.2 (le_max_right a b)),
               mul_nonneg (sub_nonneg.2 hs1) (sub_nonneg.2 (le_max_left a b))]

theorem scale_unit (p pmin pmax : ℝ) (h : pmin < pmax) (h1 : pmin ≤ p) (h2 : p ≤ pmax) :
    0 ≤ (p - pmin) / (pmax - pmin) ∧ (p - pmin) / (pmax - pmin) ≤ 1 := by
  have hd : 0 < pmax - pmin := by linarith
  exact ⟨div_nonneg (by linarith) hd.le, by rw [div_le_one hd]; linarith⟩

theorem interpLin_convex (x11 x12 p pmin pmax : ℝ) :
    interpLin x11 x12 p pmin pmax
      = (1 - (p - pmin) / (pmax - pmin)) * x11 + ((p - pmin) / (pmax - pmin)) * x12 := by
  unfold interpLin; ring

theorem interpLin_between (x11 x12 p pmin pmax : ℝ) (h : pmin < pmax) (h1 : pmin ≤ p) (h2 : p ≤ pmax) :
    min x11 x12 ≤ interpLin x11 x12 p pmin pmax ∧ interpLin x11 x12 p pmin pmax ≤ max x11 x12 := by
  rw [interpLin_convex]
  obtain ⟨a, b⟩ := scale_unit p pmin pmax h h1 h2
  exact convex2_between _ _ _ a b

theorem interpLin_left (x11 x12 pmin pmax : ℝ) : interpLin x11 x12 pmin pmin pmax = x11 := by
  unfold interpLin; simp

theorem interpLin_right (x11 x12 pmin pmax : ℝ) (h : pmin < pmax) : interpLin x11 x12 pmax pmin pmax = x12 := by
  unfold interpLin
  have hd : pmax - pmin ≠ 0 := by linarith
  rw [div_self hd]; ring

/-- the bilinear kernel is linear interpolation in `p` of two linear interpolations in `t` -/
theorem interpBilin_nested (x11 x12 x21 x22 t tmin tmax p pmin pmax : ℝ) :
    interpBilin x11 x12 x21 x22 t tmin tmax p pmin pmax
      = interpLin (interpLin x11 x12 t tmin tmax) (interpLin x21 x22 t tmin tmax) p pmin pmax := by
  unfold interpBilin interpLin; ring

theorem min4_le_min2 (a b c d : ℝ) :
    min (min a b) (min c d) ≤ min (min a b) (min c d) := le_refl _

theorem interpBilin_between (x11 x12 x21 x22 t tmin tmax p pmin pmax : ℝ)
    (ht : tmin < tmax) (ht1 : tmin ≤ t) (ht2 : t ≤ tmax) (hp : pmin < pmax) (hp1 : pmin ≤ p) (hp2 : p ≤ pmax) :
    min (min x11 x12) (min x21 x22) ≤ interpBilin x11 x12 x21 x22 t tmin tmax p pmin pmax ∧
    interpBilin x11 x12 x21 x22 t tmin tmax p pmin pmax ≤ max (max x11 x12) (max x21 x22) := by
  rw [interpBilin_nested]
  obtain ⟨a1, a2⟩ := interpLin_between x11 x12 t tmin tmax ht ht1 ht2
  obtain ⟨b1, b2⟩ := interpLin_between x21 x22 t tmin tmax ht ht1 ht2
  obtain ⟨c1, c2⟩ := interpLin_between (interpLin x11 x12 t tmin tmax) (interpLin x21 x22 t tmin tmax)
    p pmin pmax hp hp1 hp2
  constructor
  · exact le_trans (min_le_min a1 b1) c1
  · exact le_trans c2 (max_le_max a2 b2)

/-! ### exponential-in-1/T kernel: a weighted geometric mean -/

/-- the exponent weight `λ = Tmax (T - Tmin) / (T (Tmax - Tmin))` lies in `[0,1]` inside the bracket -/
theorem lam_unit (t tmin tmax : ℝ) (h0 : 0 < tmin) (h : tmin < tmax) (h1 : tmin ≤ t) (h2 : t ≤ tmax) :
    0 ≤ tmax * (t - tmin) / (t * (tmax - tmin)) ∧ tmax * (t - tmin) / (t * (tmax - tmin)) ≤ 1 := by
  have ht : 0 < t := by linarith
  have hd : 0 < t * (tmax - tmin) := mul_pos ht (by linarith)
  constructor
  · apply div_nonneg _ hd.le
    exact mul_nonneg (by linarith) (by linarith)
  · rw [div_le_one hd]
    nlinarith [mul_nonneg (sub_nonneg.2 h2) h0.le]

/-- `x11 * exp(c * log(x11/x12))` with `c = -λ` is `exp((1-λ) log x11 + λ log x12)` -/
theorem interpExp_geo (x11 x12 t tmin tmax : ℝ) (hx1 : 0 < x11) (hx2 : 0 < x12) :
    interpExp x11 x12 t tmin tmax
      = Real.exp ((1 - tmax * (t - tmin) / (t * (tmax - tmin))) * Real.log x11
                  + (tmax * (t - tmin) / (t * (tmax - tmin))) * Real.log x12) := by
  unfold interpExp
  simp only [exp_real, log_real]
  rw [Real.log_div hx1.ne' hx2.ne']
  conv_lhs => rw [← Real.exp_log hx1]
  rw [← Real.exp_add]
  congr 1
  rw [Real.log_exp]
  ring

theorem geo_between (a b s : ℝ) (ha : 0 < a) (hb : 0 < b) (hs0 : 0 ≤ s) (hs1 : s ≤ 1) :
    min a b ≤ Real.exp ((1 - s) * Real.log a + s * Real.log b) ∧
    Real.exp ((1 - s) * Real.log a + s * Real.log b) ≤ max a b := by
  obtain ⟨l, u⟩ := convex2_between (Real.log a) (Real.log b) s hs0 hs1
  constructor
  · have hm : 0 < min a b := lt_min ha hb
    rw [← Real.exp_log hm]
    apply Real.exp_le_exp.2
    refine le_trans ?_ l
    apply le_min
    · exact Real.log_le_log hm (min_le_left a b)
    · exact Real.log_le_log hm (min_le_right a b)
  · have hM : 0 < max a b := lt_max_of_lt_left ha
    rw [← Real.exp_log hM]
    apply Real.exp_le_exp.2
    refine le_trans u ?_
    apply max_le
    · exact Real.log_le_log ha (le_max_left a b)
    · exact Real.log_le_log hb (le_max_right a b)

theorem interpExp_between (x11 x12 t tmin tmax : ℝ) (hx1 : 0 < x11) (hx2 : 0 < x12)
    (h0 : 0 < tmin) (h : tmin < tmax) (h1 : tmin ≤ t) (h2 : t ≤ tmax) :
    min x11 x12 ≤ interpExp x11 x12 t tmin tmax ∧ interpExp x11 x12 t tmin tmax ≤ max x11 x12 := by
  rw [interpExp_geo x11 x12 t tmin tmax hx1 hx2]
  obtain ⟨a, b⟩ := lam_unit t tmin tmax h0 h h1 h2
  exact geo_between _ _ _ hx1 hx2 a b

/-- the exp-and-linear kernel is the exponential kernel applied to the two pressure-interpolated columns -/
theorem interpExpLin_nested (x11 x12 x21 x22 t tmin tmax p pmin pmax : ℝ) (hp : pmin < pmax) :
    interpExpLin x11 x12 x21 x22 t tmin tmax p pmin pmax
      = interpExp (interpLin x11 x21 p pmin pmax) (interpLin x12 x22 p pmin pmax) t tmin tmax := by
  have hd : pmax - pmin ≠ 0 := by linarith
  unfold interpExpLin interpExp interpLin
  simp only [exp_real, log_real]
  have e1 : x11 - (p - pmin) / (pmax - pmin) * (x11 - x21)
      = (x11 * (pmax - pmin) - (p - pmin) * (x11 - x21)) / (pmax - pmin) := by
    field_simp
  have e2 : x12 - (p - pmin) / (pmax - pmin) * (x12 - x22)
      = (x12 * (pmax - pmin) - (p - pmin) * (x12 - x22)) / (pmax - pmin) := by
    field_simp
  rw [e1, e2, div_div_div_cancel_right₀ hd]
  ring

theorem interpLin_pos (x11 x12 p pmin pmax : ℝ) (hx1 : 0 < x11) (hx2 : 0 < x12)
    (h : pmin < pmax) (h1 : pmin ≤ p) (h2 : p ≤ pmax) : 0 < interpLin x11 x12 p pmin pmax :=
  lt_of_lt_of_le (lt_min hx1 hx2) (interpLin_between x11 x12 p pmin pmax h h1 h2).1

theorem interpExpLin_between (x11 x12 x21 x22 t tmin tmax p pmin pmax : ℝ)
    (h11 : 0 < x11) (h12 : 0 < x12) (h21 : 0 < x21) (h22 : 0 < x22)
    (h0 : 0 < tmin) (ht : tmin < tmax) (ht1 : tmin ≤ t) (ht2 : t ≤ tmax)
    (hp : pmin < pmax) (hp1 : pmin ≤ p) (hp2 : p ≤ pmax) :
    min (min x11 x12) (min x21 x22) ≤ interpExpLin x11 x12 x21 x22 t tmin tmax p pmin pmax ∧
    interpExpLin x11 x12 x21 x22 t tmin tmax p pmin pmax ≤ max (max x11 x12) (max x21 x22) := by
  rw [interpExpLin_nested _ _ _ _ _ _ _ _ _ _ hp]
  obtain ⟨a1, a2⟩ := interpLin_between x11 x21 p pmin pmax hp hp1 hp2
  obtain ⟨b1, b2⟩ := interpLin_between x12 x22 p pmin pmax hp hp1 hp2
  obtain ⟨c1, c2⟩ := interpExp_between _ _ t tmin tmax
    (interpLin_pos x11 x21 p pmin pmax h11 h21 hp hp1 hp2)
    (interpLin_pos x12 x22 p pmin pmax h12 h22 hp hp1 hp2) h0 ht ht1 ht2
  constructor
  · refine le_trans ?_ c1
    refine le_trans ?_ (min_le_min a1 b1)
    apply le_min
    · apply le_min
      · exact le_trans (min_le_left _ _) (min_le_left _ _)
      · exact le_trans (min_le_right _ _) (min_le_left _ _)
    · apply le_min
      · exact le_trans (min_le_left _ _) (min_le_right _ _)
      · exact le_trans (min_le_right _ _) (min_le_right _ _)
  · refine le_trans c2 ?_
    refine le_trans (max_le_max a2 b2) ?_
    apply max_le
    · apply max_le
      · exact le_trans (le_max_left _ _) (le_max_left _ _)
      · exact le_trans (le_max_left _ _) (le_max_right _ _)
    · apply max_le
      · exact le_trans (le_max_right _ _) (le_max_left _ _)
      · exact le_trans (le_max_right _ _) (le_max_right _ _)

end Taurex.C04L
