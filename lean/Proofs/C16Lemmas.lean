/-
  Helper lemmas for the C16 property theorems (storage part: core tactics only).
-/
import TaurexModel.Output

namespace Taurex.Output
variable {α : Type}

/-! ### fixed-width string cells -/

theorem sCell_clean (s : List Nat) (h : cleanStr s = true) : sCell s = s := by
  unfold cleanStr at h
  unfold sCell
  rcases List.eq_nil_or_concat s with rfl | ⟨l, a, rfl⟩
  · rfl
  · have ha : (a == 0) = false := by
      simp at h
      simpa using h
    simp [ha]

theorem stringList_clean : (l : List (Value α)) → l.all isCleanStr = true →
    ∃ strs, stringList l = some strs ∧ (strs.map sCell).map Value.str = l
  | [], _ => ⟨[], rfl, rfl⟩
  | v :: vs, h => by
    simp only [List.all_cons, Bool.and_eq_true] at h
    obtain ⟨hv, hvs⟩ := h
    obtain ⟨rows, hr, hm⟩ := stringList_clean vs hvs
    cases v <;> simp [isCleanStr] at hv
    rename_i s
    refine ⟨s :: rows, ?_, ?_⟩
    · simp [stringList, hr]
    · simpa [sCell_clean s hv] using hm

theorem any_isStr_of_clean : (l : List (Value α)) → l.isEmpty = false → l.all isCleanStr = true → l.any isStr = true
  | [], h, _ => by simp at h
  | v :: vs, _, h => by
    simp only [List.all_cons, Bool.and_eq_true] at h
    cases v <;> simp [isCleanStr] at h
    simp [isStr]


/-! ### well-formed values are stored as one entry and read back unchanged -/

variable [OfInt α]

mutual
theorem storeThing_wf (k : String) : (v : Value α) → wfVal v = true →
    ∃ n, storeThing k v = .ok [(k, n)] ∧ load n = v
  | .int i, _ => ⟨_, rfl, rfl⟩
  | .float x, _ => ⟨_, rfl, rfl⟩
  | .bool b, _ => ⟨_, rfl, rfl⟩
  | .array a, h => by
    refine ⟨.num a, rfl, ?_⟩
    simp only [wfVal, bne_iff_ne, ne_eq] at h
    rcases hs : a.shape with _ | ⟨x, xs⟩
    · exact absurd hs h
    · simp [load, hs]
  | .str s, _ => ⟨_, rfl, rfl⟩
  | .list l, h => by
    simp only [wfVal, Bool.and_eq_true, Bool.not_eq_true'] at h
    obtain ⟨strs, hr, hm⟩ := stringList_clean l h.2
    refine ⟨stringNode strs, ?_, ?_⟩
    · simp [storeThing, any_isStr_of_clean l h.1 h.2, hr]
    · simp [stringNode, load, hm]
  | .tuple _, h => by simp [wfVal] at h
  | .dict d, h => by
    simp only [wfVal] at h
    obtain ⟨ch, hc, hl⟩ := storeEntries_wf d h
    refine ⟨.group ch, ?_, ?_⟩
    · simp [storeThing, hc]
    · simp [load, hl]
  | .unsupported, h => by simp [wfVal] at h
theorem storeEntries_wf : (d : List (String × Value α)) → wfEntries d = true →
    ∃ ch, storeEntries d = .ok ch ∧ loadEntries ch = d ∧ ch.map Prod.fst = d.map Prod.fst
  | [], _ => ⟨[], rfl, rfl, rfl⟩
  | (k, v) :: rest, h => by
    simp only [wfEntries, Bool.and_eq_true] at h
    obtain ⟨n, hn, hl⟩ := storeThing_wf k v h.1
    obtain ⟨ch, hc, hcl, hk⟩ := storeEntries_wf rest h.2
    refine ⟨(k, n) :: ch, ?_, ?_, ?_⟩
    · simp [storeEntries, hn, hc]
    · simp [loadEntries, hl, hcl]
    · simp [hk]
end


/-! ### exactly the unsupported values make the writer fail -/

omit [OfInt α] in
theorem stringList_isSome_iff : (l : List (Value α)) → ((stringList l).isSome = true ↔ l.all isStr = true)
  | [] => by simp [stringList]
  | v :: vs => by
    have ih := stringList_isSome_iff vs
    cases v <;> simp [stringList, isStr, ih]

def IsOk {ε β : Type} (r : Except ε β) : Prop := ∃ x, r = .ok x

theorem isOk_ok {ε β : Type} (x : β) : IsOk (Except.ok x : Except ε β) := ⟨x, rfl⟩
theorem not_isOk_error {ε β : Type} (e : ε) : ¬ IsOk (Except.error e : Except ε β) := by
  rintro ⟨x, h⟩; cases h

mutual
theorem storeThing_ok_iff (k : String) : (v : Value α) → (IsOk (storeThing k v) ↔ supported v = true)
  | .int _ => by simp [storeThing, supported, isOk_ok]
  | .float _ => by simp [storeThing, supported, isOk_ok]
  | .bool _ => by simp [storeThing, supported, isOk_ok]
  | .array _ => by simp [storeThing, supported, isOk_ok]
  | .str _ => by simp [storeThing, supported, isOk_ok]
  | .list l => by
    unfold storeThing supported
    by_cases hs : l.any isStr = true
    · rw [if_pos hs, if_pos hs, ← stringList_isSome_iff]
      cases hr : stringList l <;> simp [isOk_ok, not_isOk_error]
    · rw [if_neg hs, if_neg hs]
      cases hn : (toNdList l).bind stack with
      | some a => simp [isOk_ok]
      | none => simpa using storeSeq_ok_iff k 0 l
  | .tuple l => by
    unfold storeThing supported
    by_cases hs : l.any isStr = true
    · rw [if_pos hs, if_pos hs, ← stringList_isSome_iff]
      cases hr : stringList l <;> simp [isOk_ok, not_isOk_error]
    · rw [if_neg hs, if_neg hs]
      cases hn : (toNdList l).bind stack with
      | some a => simp [isOk_ok]
      | none => simpa using storeSeq_ok_iff k 0 l
  | .dict d => by
    have ih := storeEntries_ok_iff d
    unfold storeThing supported
    cases hd : storeEntries d with
    | ok ch => rw [hd] at ih; simpa [isOk_ok] using ih
    | error e => rw [hd] at ih; simpa [not_isOk_error] using ih
  | .unsupported => by simp [storeThing, supported, not_isOk_error]
theorem storeSeq_ok_iff (k : String) (i : Nat) : (l : List (Value α)) →
    (IsOk (storeSeq k i l) ↔ supportedList l = true)
  | [] => by simp [storeSeq, supportedList, isOk_ok]
  | v :: vs => by
    have h1 := storeThing_ok_iff (subKey k i) v
    have h2 := storeSeq_ok_iff k (i + 1) vs
    unfold storeSeq supportedList
    cases hv : storeThing (subKey k i) v with
    | error e => rw [hv] at h1; simp [not_isOk_error] at h1; simp [h1, not_isOk_error]
    | ok a =>
      rw [hv] at h1; simp [isOk_ok] at h1
      cases hr : storeSeq k (i + 1) vs with
      | error e => rw [hr] at h2; simp [not_isOk_error] at h2; simp [h2, not_isOk_error]
      | ok b => rw [hr] at h2; simp [isOk_ok] at h2; simp [h1, h2, isOk_ok]
theorem storeEntries_ok_iff : (d : List (String × Value α)) →
    (IsOk (storeEntries d) ↔ supportedEntries d = true)
  | [] => by simp [storeEntries, supportedEntries, isOk_ok]
  | (k, v) :: rest => by
    have h1 := storeThing_ok_iff k v
    have h2 := storeEntries_ok_iff rest
    unfold storeEntries supportedEntries
    cases hv : storeThing k v with
    | error e => rw [hv] at h1; simp [not_isOk_error] at h1; simp [h1, not_isOk_error]
    | ok a =>
      rw [hv] at h1; simp [isOk_ok] at h1
      cases hr : storeEntries rest with
      | error e => rw [hr] at h2; simp [not_isOk_error] at h2; simp [h2, not_isOk_error]
      | ok b => rw [hr] at h2; simp [isOk_ok] at h2; simp [h1, h2, isOk_ok]
end


/-! ### the `key0, key1, …` expansion of a list of arrays -/

/-- the entries a list of arrays is expanded to, starting at index `i` -/
def expandArrays (k : String) : Nat → List (Arr α) → List (String × Node α)
  | _, [] => []
  | i, a :: as => (subKey k i, .num a) :: expandArrays k (i + 1) as

theorem storeSeq_arrays (k : String) : (i : Nat) → (as : List (Arr α)) →
    storeSeq k i (as.map Value.array) = .ok (expandArrays k i as)
  | _, [] => rfl
  | i, a :: as => by
    simp [storeSeq, storeThing, storeSeq_arrays k (i + 1) as, expandArrays]

omit [OfInt α] in
theorem writeArray_go_arrays (k : String) : (i : Nat) → (as : List (Arr α)) →
    writeArray.go k i (as.map Value.array) = some (expandArrays k i as)
  | _, [] => rfl
  | i, a :: as => by
    simp [writeArray.go, writeArray_go_arrays k (i + 1) as, expandArrays]

omit [OfInt α] in
theorem any_isStr_arrays (as : List (Arr α)) : (as.map Value.array).any isStr = false := by
  induction as with
  | nil => rfl
  | cons a as ih => simp [isStr, ih]

theorem toNdList_arrays : (as : List (Arr α)) → toNdList (as.map Value.array) = some as
  | [] => rfl
  | a :: as => by simp [toNdList, toNd, toNdList_arrays as]

/-! ### component records -/

omit [OfInt α] in
theorem lookup_loadEntries (ch : List (String × Node α)) (k : String) :
    (loadEntries ch).lookup k = (ch.lookup k).map load := by
  induction ch with
  | nil => rfl
  | cons p ch ih =>
    obtain ⟨k', n⟩ := p
    simp only [loadEntries, List.lookup_cons]
    cases h : (k == k') <;> simp [ih]

omit [OfInt α] in
theorem loadKwargs_eq (ch : List (String × Node α)) : (kws : List String) →
    loadKwargs ch kws = kws.filterMap (fun kw => ((loadEntries ch).lookup kw).map (fun v => (kw, v)))
  | [] => rfl
  | kw :: rest => by
    unfold loadKwargs
    rw [loadKwargs_eq ch rest, List.filterMap_cons, lookup_loadEntries]
    cases h : ch.lookup kw <;> simp

/-! ### regular values: one entry each, read back as their canonical form -/

mutual
theorem storeThing_reg (k : String) : (v : Value α) → regVal v = true →
    ∃ n, storeThing k v = .ok [(k, n)] ∧ load n = canon v
  | .int i, _ => ⟨_, rfl, rfl⟩
  | .float x, _ => ⟨_, rfl, rfl⟩
  | .bool b, _ => ⟨_, rfl, rfl⟩
  | .array a, _ => ⟨.num a, rfl, by simp [canon]⟩
  | .str s, _ => ⟨_, rfl, rfl⟩
  | .list l, h => by
    unfold regVal at h
    by_cases hs : l.any isStr = true
    · rw [if_pos hs] at h
      obtain ⟨strs, hr, hm⟩ := stringList_clean l h
      exact ⟨stringNode strs, by simp [storeThing, hs, hr], by simp [stringNode, load, hm, canon, hs]⟩
    · rw [if_neg hs] at h
      obtain ⟨a, ha⟩ := Option.isSome_iff_exists.1 h
      exact ⟨.num a, by simp [storeThing, hs, ha], by simp [canon, hs, ha]⟩
  | .tuple l, h => by
    unfold regVal at h
    by_cases hs : l.any isStr = true
    · rw [if_pos hs] at h
      obtain ⟨strs, hr, hm⟩ := stringList_clean l h
      exact ⟨stringNode strs, by simp [storeThing, hs, hr], by simp [stringNode, load, hm, canon, hs]⟩
    · rw [if_neg hs] at h
      obtain ⟨a, ha⟩ := Option.isSome_iff_exists.1 h
      exact ⟨.num a, by simp [storeThing, hs, ha], by simp [canon, hs, ha]⟩
  | .dict d, h => by
    simp only [regVal] at h
    obtain ⟨ch, hc, hl, _⟩ := storeEntries_reg d h
    exact ⟨.group ch, by simp [storeThing, hc], by simp [load, hl, canon]⟩
  | .unsupported, h => by simp [regVal] at h
theorem storeEntries_reg : (d : List (String × Value α)) → regEntries d = true →
    ∃ ch, storeEntries d = .ok ch ∧ loadEntries ch = canonEntries d ∧ ch.map Prod.fst = d.map Prod.fst
  | [], _ => ⟨[], rfl, rfl, rfl⟩
  | (k, v) :: rest, h => by
    simp only [regEntries, Bool.and_eq_true] at h
    obtain ⟨n, hn, hl⟩ := storeThing_reg k v h.1
    obtain ⟨ch, hc, hcl, hk⟩ := storeEntries_reg rest h.2
    exact ⟨(k, n) :: ch, by simp [storeEntries, hn, hc], by simp [loadEntries, canonEntries, hl, hcl], by simp [hk]⟩
end

mutual
theorem canon_of_wf : (v : Value α) → wfVal v = true → canon v = v
  | .int _, _ => rfl
  | .float _, _ => rfl
  | .bool _, _ => rfl
  | .array a, h => by
    simp only [wfVal, bne_iff_ne, ne_eq] at h
    rcases hs : a.shape with _ | ⟨x, xs⟩
    · exact absurd hs h
    · simp [canon, load, hs]
  | .str _, _ => rfl
  | .list l, h => by
    simp only [wfVal, Bool.and_eq_true, Bool.not_eq_true'] at h
    simp [canon, any_isStr_of_clean l h.1 h.2]
  | .tuple _, h => by simp [wfVal] at h
  | .dict d, h => by
    simp only [wfVal] at h
    simp [canon, canonEntries_of_wf d h]
  | .unsupported, h => by simp [wfVal] at h
theorem canonEntries_of_wf : (d : List (String × Value α)) → wfEntries d = true → canonEntries d = d
  | [], _ => rfl
  | (k, v) :: rest, h => by
    simp only [wfEntries, Bool.and_eq_true] at h
    simp [canonEntries, canon_of_wf v h.1, canonEntries_of_wf rest h.2]
end

/-! ### a flat list of ints / floats is the 1-D array of the same numbers -/

theorem toNdList_ints : (l : List Int) →
    toNdList (l.map (Value.int (α := α))) = some (l.map (fun i => (⟨[], .ints [i]⟩ : Arr α)))
  | [] => rfl
  | i :: l => by simp [toNdList, toNd, toNdList_ints l]

theorem toNdList_floats : (l : List α) →
    toNdList (l.map Value.float) = some (l.map (fun x => (⟨[], .floats [x]⟩ : Arr α)))
  | [] => rfl
  | x :: l => by simp [toNdList, toNd, toNdList_floats l]

theorem foldl_max_const (c : Nat) : (l : List Nat) → (∀ x ∈ l, x = c) → (init : Nat) → init ≤ c → l ≠ [] →
    l.foldl max init = c
  | [], _, _, _, h => absurd rfl h
  | [x], hx, init, hi, _ => by
    have := hx x (by simp); subst this
    simp [Nat.max_eq_right hi]
  | x :: y :: l, hx, init, hi, _ => by
    have h1 := hx x (by simp); subst h1
    rw [List.foldl_cons, Nat.max_eq_right hi]
    exact foldl_max_const x (y :: l) (fun z hz => hx z (by simp [hz])) x (Nat.le_refl _) (by simp)

theorem stack_ints (l : List Int) (h : l ≠ []) :
    stack (l.map (fun i => (⟨[], .ints [i]⟩ : Arr α))) = some ⟨[l.length], .ints l⟩ := by
  cases l with
  | nil => exact absurd rfl h
  | cons i l =>
    have hr : (((i :: l).map (fun i => (⟨[], .ints [i]⟩ : Arr α))).map (fun b => b.data.rank)).foldl max 0 = 1 := by
      apply foldl_max_const 1 _ _ 0 (by omega) (by simp)
      intro x hx
      simp only [List.map_map, List.mem_map, Function.comp] at hx
      obtain ⟨j, _, rfl⟩ := hx
      rfl
    unfold stack
    simp only [List.map_cons] at hr ⊢
    rw [if_pos (by simp)]
    simp only [hr]
    simp [catData, ArrData.widen, List.flatMap_cons, List.map_map]
    clear hr h
    induction l with
    | nil => rfl
    | cons j l ih => simpa [List.flatMap_cons] using ih

theorem stack_floats (l : List α) (h : l ≠ []) :
    stack (l.map (fun x => (⟨[], .floats [x]⟩ : Arr α))) = some ⟨[l.length], .floats l⟩ := by
  cases l with
  | nil => exact absurd rfl h
  | cons i l =>
    have hr : (((i :: l).map (fun x => (⟨[], .floats [x]⟩ : Arr α))).map (fun b => b.data.rank)).foldl max 0 = 2 := by
      apply foldl_max_const 2 _ _ 0 (by omega) (by simp)
      intro x hx
      simp only [List.map_map, List.mem_map, Function.comp] at hx
      obtain ⟨j, _, rfl⟩ := hx
      rfl
    unfold stack
    simp only [List.map_cons] at hr ⊢
    rw [if_pos (by simp)]
    simp only [hr]
    simp [catData, ArrData.widen, List.flatMap_cons, List.map_map]
    clear hr h
    induction l with
    | nil => rfl
    | cons j l ih => simpa [List.flatMap_cons] using ih

omit [OfInt α] in
theorem any_isStr_ints (l : List Int) : (l.map (Value.int (α := α))).any isStr = false := by
  induction l with
  | nil => rfl
  | cons a as ih => simp [isStr, ih]
omit [OfInt α] in
theorem any_isStr_floats (l : List α) : (l.map Value.float).any isStr = false := by
  induction l with
  | nil => rfl
  | cons a as ih => simp [isStr, ih]

theorem storeThing_int_list (k : String) (l : List Int) (h : l ≠ []) :
    storeThing k (Value.list (l.map (Value.int (α := α)))) = .ok [(k, .num ⟨[l.length], .ints l⟩)] := by
  unfold storeThing
  rw [if_neg (by rw [any_isStr_ints]; simp), toNdList_ints]
  simp [stack_ints l h]

theorem storeThing_float_tuple (k : String) (x : List α) (h : x ≠ []) :
    storeThing k (Value.tuple (x.map Value.float)) = .ok [(k, .num ⟨[x.length], .floats x⟩)] := by
  unfold storeThing
  rw [if_neg (by rw [any_isStr_floats]; simp), toNdList_floats]
  simp [stack_floats x h]

end Taurex.Output
